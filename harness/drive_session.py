"""C06 harness: an alphabet of concrete einx calls (with equal-but-not-identical variants), measurement of the
tables KeyOf / ArtOf / FreshOf in pristine forked interpreters, and replay of TLC histories in pristine forks."""
import hashlib
import json
import os
import re
import sys
import warnings

import numpy as np


def _x(shape, k=0):
    n = int(np.prod(shape)) if shape else 1
    return (np.arange(n, dtype=np.float64) * 1.5 + k).reshape(shape)


def ones_factory(shape):
    return np.ones(shape)


def named_factory(shape, name=None, arg_index=None):
    return np.full(shape, 2.0 if name is not None else 3.0)


def bad_factory(shape):
    return np.ones(tuple(s + 1 for s in shape))


def posonly_factory(shape, name=None, arg_index=None, /):
    return np.full(shape, 2.0 if name is not None else 3.0)


class _Shaped:
    def __init__(self, shape):
        self.shape = shape


class CallableFactory:
    def __call__(self, shape):
        return np.full(shape, 5.0)


def _calls():
    """name -> (op, function(einx, graph) -> result).  `graph` requests graph=True where the API offers it."""
    C = {}

    def add(name, op, fn):
        C[name] = (op, fn)

    x23 = _x((2, 3))
    x3 = _x((3,), 1)
    g = lambda graph: {"graph": True} if graph else {}
    add("id_T", "id", lambda e, graph: e.id("a b -> b a", x23, **g(graph)))
    add("id_T_list", "id", lambda e, graph: e.id("a b -> b a", x23.tolist(), **g(graph)))
    for tag, v in [("int", 2), ("float", 2.0), ("npint", np.int64(2)), ("npint32", np.int32(2)), ("str", "2")]:
        add("id_bc_c" + tag, "id", lambda e, graph, v=v: e.id("a b -> a b c", x23, c=v, **g(graph)))
    for tag, v in [("int", 1), ("bool", True), ("float", 1.0)]:
        add("id_bc_c1" + tag, "id", lambda e, graph, v=v: e.id("a b -> a b c", x23, c=v, **g(graph)))
    for tag, v in [("tuple", (2, 3)), ("list", [2, 3]), ("array", np.array([2, 3])), ("ftuple", (2.0, 3.0))]:
        add("id_ell_" + tag, "id", lambda e, graph, v=v: e.id("(a b)... -> a... b...", _x((6, 6)), b=v, **g(graph)))
    for tag, v in [("int", 1), ("float", 1.0), ("bool", True), ("tuple", (1,)), ("list", [1]), ("array", np.array([1])), ("npint", np.int64(1))]:
        add("roll_" + tag, "roll", lambda e, graph, v=v: e.roll("a [b]", x23, shift=v, **g(graph)))
    add("sum_plain", "sum", lambda e, graph: e.sum("a [b]", x23, **g(graph)))
    add("sum_keep", "sum", lambda e, graph: e.sum("a [b]", x23, keepdims=True, **g(graph)))
    add("sum_keep1", "sum", lambda e, graph: e.sum("a [b]", x23, keepdims=1, **g(graph)))
    add("sum_nokeep", "sum", lambda e, graph: e.sum("a [b]", x23, keepdims=False, **g(graph)))
    add("sum_keep0", "sum", lambda e, graph: e.sum("a [b]", x23, keepdims=0, **g(graph)))
    # tensor kinds of equal shape
    add("add_arr", "add", lambda e, graph: e.add("a, a", x3, _x((3,), 7), **g(graph)))
    add("add_fac", "add", lambda e, graph: e.add("a, a", x3, ones_factory, **g(graph)))
    add("add_facnamed", "add", lambda e, graph: e.add("a, a", x3, named_factory, **g(graph)))
    add("add_facbad", "add", lambda e, graph: e.add("a, a", x3, bad_factory, **g(graph)))
    add("add_faccallable", "add", lambda e, graph: e.add("a, a", x3, CallableFactory(), **g(graph)))
    add("add_faclambda", "add", lambda e, graph: e.add("a, a", x3, lambda shape: np.full(shape, 9.0), **g(graph)))
    # short-lived factories of different signatures (their addresses are recycled), same parameter names of different kinds
    add("add_faclambda_named", "add", lambda e, graph: e.add("a, a", x3, lambda shape, name=None: np.full(shape, 2.0 if name is not None else 3.0), **g(graph)))
    add("add_faclambda_kw", "add", lambda e, graph: e.add("a, a", x3, lambda shape, **kw: np.full(shape, 10.0 + len(kw)), **g(graph)))
    add("add_facposonly", "add", lambda e, graph: e.add("a, a", x3, posonly_factory, **g(graph)))
    add("add_s_float", "add", lambda e, graph: e.add("a,", x3, 2.0, **g(graph)))
    add("add_s_int", "add", lambda e, graph: e.add("a,", x3, 2, **g(graph)))
    add("add_s_bool", "add", lambda e, graph: e.add("a,", x3, True, **g(graph)))
    add("add_s_np", "add", lambda e, graph: e.add("a,", x3, np.float64(2.0), **g(graph)))
    add("add_s_arr0", "add", lambda e, graph: e.add("a,", x3, np.asarray(2.0), **g(graph)))
    # backend argument
    add("dot_none", "dot", lambda e, graph: e.dot("a [b], [b] c -> a c", x23, _x((3, 2)), **g(graph)))
    add("dot_numpy", "dot", lambda e, graph: e.dot("a [b], [b] c -> a c", x23, _x((3, 2)), backend="numpy", **g(graph)))
    add("dot_obj", "dot", lambda e, graph: e.dot("a [b], [b] c -> a c", x23, _x((3, 2)), backend=e.backend.get("numpy"), **g(graph)))
    add("dot_like", "dot", lambda e, graph: e.dot("a [b], [b] c -> a c", x23, _x((3, 2)), backend="numpy.numpylike", **g(graph)))

    def with_einsum(e, graph):
        with e.backend.get("numpy.einsum"):
            return e.dot("a [b], [b] c -> a c", x23, _x((3, 2)), **g(graph))
    add("dot_with_einsum", "dot", with_einsum)

    def with_like_add(e, graph):
        with e.backend.get("numpy.einsum"):
            return e.add("a, a", x3, _x((3,), 7), **g(graph))
    add("add_with_einsum", "add", with_like_add)
    # the generated text as outcome (graph=True whatever the harness asks for): backend selection and cached artefacts show here
    add("dot_none_G", "dot", lambda e, graph: e.dot("a [b], [b] c -> a c", x23, _x((3, 2)), graph=True))
    add("add_arr_G", "add", lambda e, graph: e.add("a, a", x3, _x((3,), 7), graph=True))
    add("sum_plain_G", "sum", lambda e, graph: e.sum("a [b]", x23, graph=True))

    def with_einsum_sum(e, graph):
        with e.backend.get("numpy.einsum"):
            return e.sum("a [b]", x23, **g(graph))
    add("sum_with_einsum", "sum", with_einsum_sum)
    # a call that fails for a transient reason outside the cache key (warnings turned into errors while tracing)

    def werr(e, graph):
        with warnings.catch_warnings():
            warnings.simplefilter("error")
            return e.sum("a [b]", x23, keepdims=True, **g(graph))
    add("sum_keep_werr", "sum", werr)
    # failing calls
    add("id_syntax", "id", lambda e, graph: e.id("a b -> (a", x23, **g(graph)))
    add("id_rank", "id", lambda e, graph: e.id("a b c -> a", x23, **g(graph)))
    add("id_size", "id", lambda e, graph: e.id("(a b) c -> a b c", x23, a=3, **g(graph)))
    add("id_semantic", "id", lambda e, graph: e.id("a b -> a", x23, **g(graph)))
    add("id_argcount", "id", lambda e, graph: e.id("a b, a b -> a b", x23, **g(graph)))
    add("add_unsupported", "add", lambda e, graph: e.add("a, a", x3, x3, backend="numpy.einsum", **g(graph)))
    # adapters
    def adapter(e):
        f = _adapted_cache.get("f")
        if f is None:
            def fun(x, axis, *, scale=1.0, bounds=(0, 0)):
                return np.sum(x, axis=axis) * scale + (0.5 if isinstance(bounds[1], float) else 0.0) + bounds[1]
            f = _adapted_cache["f"] = e.numpy.adapt_numpylike_reduce(fun)
        return f

    def adapted(e, graph, scale):
        return adapter(e)("a [b]", x23, scale=scale, **g(graph))
    add("adapt_s2", "adapt", lambda e, graph: adapted(e, graph, 2.0))
    add("adapt_s2i", "adapt", lambda e, graph: adapted(e, graph, 2))
    add("adapt_s3", "adapt", lambda e, graph: adapted(e, graph, 3.0))

    def adapted_b(e, graph, bounds):
        return adapter(e)("a [b]", x23, bounds=bounds, **g(graph))
    add("adapt_b_ii", "adapt", lambda e, graph: adapted_b(e, graph, (0, 20)))
    add("adapt_b_if", "adapt", lambda e, graph: adapted_b(e, graph, (0, 20.0)))
    add("adapt_b_list", "adapt", lambda e, graph: adapted_b(e, graph, [0, 20]))
    # no cache at all
    add("solve_ok", "solve", lambda e, graph: e.solve_axes("a b", x23))
    add("solve_bad", "solve", lambda e, graph: e.solve_axes("a b c", x23))
    add("matches", "solve", lambda e, graph: e.matches("a (b c)", x23, c=2))
    add("solve_ell_scalar", "solve", lambda e, graph: e.solve_axes("b a...", _Shaped((4, 1, 1)), a=1))
    add("solve_ell_tuple1", "solve", lambda e, graph: e.solve_axes("b a...", _Shaped((4, 1, 1)), a=(1,)))
    add("solve_ell_tuple2", "solve", lambda e, graph: e.solve_axes("b a...", _Shaped((4, 1, 1)), a=(1, 1)))
    add("matches_ell_tuple1", "solve", lambda e, graph: e.matches("b a...", _Shaped((4, 1, 1)), a=(1,)))
    return C


_adapted_cache = {}
CALLS = None


def calls():
    global CALLS
    if CALLS is None:
        CALLS = _calls()
    return CALLS


def digest(r):
    if isinstance(r, str):
        return "text:" + hashlib.sha1(re.sub(r"0x[0-9a-fA-F]+", "0x", r).encode()).hexdigest()[:10]   # object addresses in header comments
    if isinstance(r, (tuple, list)) and not isinstance(r, str):
        return "(" + ",".join(digest(x) for x in r) + ")"
    if isinstance(r, dict):
        return "{" + ",".join("%s:%s" % (k, digest(v)) for k, v in sorted(r.items())) + "}"
    if isinstance(r, (bool, np.bool_)):
        return "bool:%s" % bool(r)
    a = np.asarray(r)
    if a.dtype == object:
        return "obj:" + repr(r)[:30]
    return "%s%s:%s" % (a.dtype.kind, tuple(a.shape), hashlib.sha1(np.round(a.astype(np.float64), 6).tobytes()).hexdigest()[:10])


def run_call(name, graph=False):
    import einx
    op, fn = calls()[name]
    try:
        with warnings.catch_warnings():
            warnings.simplefilter("ignore")
            r = fn(einx, graph)
        return "ok:" + digest(r)
    except Exception as e:
        return "exc:" + type(e).__name__


class CompileCounter:
    """counts fresh compilations: frontend/api.py calls tracer.optimize once per cache miss"""

    def __init__(self):
        import einx._src.tracer as tracer
        self.tracer = tracer
        self.n = 0
        self.orig = tracer.optimize

        def counting(*a, **k):
            self.n += 1
            return self.orig(*a, **k)
        tracer.optimize = counting

    def close(self):
        self.tracer.optimize = self.orig


def in_fork(fn):
    r, w = os.pipe()
    pid = os.fork()
    if pid == 0:
        try:
            os.close(r)
            try:
                res = fn()
            except BaseException as e:  # noqa
                res = {"machinery_error": repr(e)}
            with os.fdopen(w, "w") as f:
                json.dump(res, f)
        finally:
            os._exit(0)
    os.close(w)
    with os.fdopen(r) as f:
        data = f.read()
    os.waitpid(pid, 0)
    return json.loads(data) if data else {"machinery_error": "child died"}


_cold = {}


def _cache_objects():
    """all per-operation compile caches reachable from the einx API (functools cache objects behind _freeze_args)"""
    import einx
    import einx._src.frontend.ops as ops_mod
    found = []
    seen = set()
    cands = [getattr(einx, n) for n in dir(einx)] + [getattr(ops_mod, n) for n in dir(ops_mod)] + list(_adapted_cache.values())
    for f in cands:
        for cell in (getattr(f, "__closure__", None) or ()):
            try:
                v = cell.cell_contents
            except ValueError:
                continue
            w = getattr(v, "__wrapped__", None)
            if w is not None and hasattr(w, "cache_clear") and id(w) not in seen:
                seen.add(id(w))
                found.append(w)
    return found


def reset_pristine():
    """bring einx's long-lived state back to what a fresh interpreter has: empty compile caches, import-time registry
    state, empty with-stack, no adapted functions.  (Cross-checked against real forks by the check.)"""
    import einx._src.frontend.backend as B
    if "state" not in _cold:
        raise RuntimeError("warm_imports() must run first")
    for w in _cache_objects():
        w.cache_clear()
    _adapted_cache.clear()
    B.registry.state = _cold["state"]


def measure_single(name, fork=False):
    if not fork:
        reset_pristine()
        cc = CompileCounter()
        out = run_call(name)
        compiled = cc.n
        cc.close()
        graph = "none"
        if calls()[name][0] != "solve":
            reset_pristine()
            graph = run_call(name, graph=True)
        reset_pristine()
        return {"name": name, "fresh": out, "compiled": compiled, "graph": graph}

    def body():
        cc = CompileCounter()
        out = run_call(name)
        compiled = cc.n
        return {"fresh": out, "compiled": compiled}
    a = in_fork(body)
    b = in_fork(lambda: {"graph": run_call(name, graph=True)}) if calls()[name][0] != "solve" else {"graph": "none"}
    return {"name": name, "fresh": a["fresh"], "compiled": a["compiled"], "graph": b["graph"]}


def measure_pair(pair, fork=False):
    c1, c2 = pair
    if not fork:
        reset_pristine()
        cc = CompileCounter()
        run_call(c1)
        n1 = cc.n
        out2 = run_call(c2)
        r = {"nocompile": cc.n == n1, "out2": out2, "pair": [c1, c2]}
        cc.close()
        reset_pristine()
        return r

    def body():
        cc = CompileCounter()
        run_call(c1)
        n1 = cc.n
        out2 = run_call(c2)
        return {"nocompile": cc.n == n1, "out2": out2}
    r = in_fork(body)
    r["pair"] = [c1, c2]
    return r


def measure_single_chunk(names):
    return [measure_single(n) for n in names]


def measure_pair_chunk(pairs):
    return [measure_pair(p) for p in pairs]


def run_history(hist, fork=False):
    if not fork:
        reset_pristine()
        cc = CompileCounter()
        outs = []
        for c in hist:
            n0 = cc.n
            o = run_call(c)
            outs.append({"c": c, "outcome": o, "compiled": cc.n - n0})
        cc.close()
        reset_pristine()
        return {"outs": outs}

    def body():
        cc = CompileCounter()
        outs = []
        for c in hist:
            n0 = cc.n
            o = run_call(c)
            outs.append({"c": c, "outcome": o, "compiled": cc.n - n0})
        return {"outs": outs}
    return in_fork(body)


def measure_pair_fork_chunk(pairs):
    return [measure_pair(p, fork=True) for p in pairs]


def run_history_chunk(hists):
    return [run_history(h) for h in hists]


def run_history_fork_chunk(hists):
    return [run_history(h, fork=True) for h in hists]


def measure_single_fork_chunk(names):
    return [measure_single(n, fork=True) for n in names]


def warm_imports():
    """import einx and everything it loads lazily, without calling any operation of the alphabet
    (the parent must stay pristine: children are forked from it)"""
    import einx  # noqa
    import einx._src.tracer  # noqa
    import sympy  # noqa
    import einx._src.frontend.backend as B
    _cold.setdefault("state", B.registry.state)
