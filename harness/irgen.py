"""Runs IR.tla under TLC (exhaustive and -simulate) and returns the exported graphs with their meaning.
The exported graphs depend only on the specification and the parameters, never on /repo, so they are cached like the
call corpus (.work/cache); the evidence marks cached runs."""
import concurrent.futures as cf
import hashlib
import json
import os

import common

ALL_KINDS = ["call", "cali", "lam", "inpl", "upd", "set", "view", "rev", "cast", "assert", "op", "dim", "cut", "gen"]
# kind subsets for the exhaustive 3-node runs: every subset has a fresh, an in-place and an aliasing / transparent kind
SUBSETS = [["call", "inpl", "view", "dim", "op"], ["cali", "upd", "rev", "assert"], ["lam", "set", "cast", "inpl"],
           ["call", "gen", "lam", "cut"], ["call", "upd", "cast", "rev"], ["cali", "inpl", "assert", "view"], ["lam", "call", "set", "dim"]]


def _spec_hash():
    with open(os.path.join(common.SPEC, "IR.tla"), "rb") as f:
        return hashlib.sha1(f.read()).hexdigest()[:16]


def _parse(out):
    res = []
    pat = '<<"G", "'
    for line in out.splitlines():
        if line.startswith(pat) and line.endswith('">>'):
            res.append(json.loads(json.loads(line[len(pat) - 1:-2])))
    return res


def _run(job):
    tag, kinds, nnodes, maxouts, simulate, tlc_seed, shard, nshards, invs, timeout = job
    d = common.workdir("irgen")
    mod = "MC_IR_%s" % tag
    with open(os.path.join(d, mod + ".tla"), "w") as f:
        f.write("---- MODULE %s ----\nEXTENDS IR\nMCKinds == %s\n====\n" % (mod, common.tla_value(set(kinds))))
    cfg = os.path.join(d, mod + ".cfg")
    with open(cfg, "w") as f:
        f.write("\n".join(["SPECIFICATION Spec", "CONSTANTS", "  NIn = 2", "  NNodes = %d" % nnodes, "  Kinds <- MCKinds", "  MaxOuts = %d" % maxouts,
                           "  Shard = %d" % shard, "  NShards = %d" % nshards, "CONSTRAINT Emit"] + ["INVARIANT " + i for i in invs] + ["CHECK_DEADLOCK FALSE"]) + "\n")
    res = common.run_tlc(os.path.join(d, mod + ".tla"), cfg, workers=2 if simulate else 4, simulate=simulate, depth=(nnodes + 2) if simulate else None,
                         tlc_seed=tlc_seed if simulate else None, timeout=timeout)
    return tag, res


def jobs_for(tier, seed):
    inv = ["IdOrderValid", "PureIsWellFormed"]
    jobs = [("ex2_all", ALL_KINDS, 2, 2, None, 0, 0, 1, inv, 1500)]
    if tier == "quick":
        jobs += [("ex3_s%d" % i, ks, 3, 1, None, 0, 0, 1, inv, 1500) for i, ks in enumerate(SUBSETS[:3])]
        jobs += [("sim5_%d" % i, ALL_KINDS, 5, 2, "num=60", seed * 100 + i + 1, 0, 1, inv, 1500) for i in range(4)]
    else:
        jobs += [("ex3_s%d" % i, ks, 3, 2 if i < 2 else 1, None, 0, 0, 1, inv, 6000) for i, ks in enumerate(SUBSETS)]
        jobs += [("sim5_%d" % i, ALL_KINDS, 5, 2, "num=400", seed * 100 + i + 1, 0, 1, inv, 6000) for i in range(8)]
        jobs += [("sim7_%d" % i, ALL_KINDS, 7, 2, "num=100", seed * 100 + i + 51, 0, 1, inv, 6000) for i in range(4)]
    return jobs


def generate(rep, tier):
    """-> list of graph records (deduplicated)"""
    cdir = os.path.join(common.VERIF, ".work", "cache")
    os.makedirs(cdir, exist_ok=True)
    jobs = jobs_for(tier, common.seed())
    key = hashlib.sha1((_spec_hash() + json.dumps(jobs, sort_keys=True)).encode()).hexdigest()[:20]
    cpath = os.path.join(cdir, "irgraphs_%s.json" % key)
    if os.path.exists(cpath) and not os.environ.get("VERIF_NO_CACHE"):
        with open(cpath) as f:
            d = json.load(f)
        for r in d["tlc_runs"]:
            r = dict(r, cached=True)
            rep.tlc_runs.append(r)
            rep.states += r.get("distinct_states", 0)
            rep.transitions += r.get("states_generated", 0)
        return d["graphs"]
    n0 = len(rep.tlc_runs)
    nviol = len(rep.violations)
    graphs, seen = [], set()
    with cf.ThreadPoolExecutor(4) as ex:
        for tag, res in ex.map(_run, jobs):
            if res.rc == 124:
                rep.tlc_runs.append({"config": "IR.tla " + tag, "timeout": True})
                continue
            rep.add_tlc("IR.tla %s" % tag, res)
            if res.violated:
                rep.violation({"kind": "model", "invariant": res.violated}, {"tag": tag},
                              "TLC: %s violated on IR.tla\n%s" % (res.violated, res.counterexample()[:3000]))
            for g in _parse(res.out):
                k = json.dumps([g["nodes"], g["outs"]], sort_keys=True)
                if k not in seen:
                    seen.add(k)
                    g["src"] = tag
                    graphs.append(g)
    if len(rep.violations) == nviol and not any(r.get("timeout") for r in rep.tlc_runs[n0:]):
        tmp = cpath + ".%d.tmp" % os.getpid()
        with open(tmp, "w") as f:
            json.dump({"graphs": graphs, "tlc_runs": rep.tlc_runs[n0:]}, f)
        os.replace(tmp, cpath)
    return graphs


def vacuity(rep):
    """the space must contain ill-formed graphs and graphs that need their declared dependencies: TLC must REFUTE both claims"""
    out = {}
    for inv in ("NoGraphNeedsDeps", "NoIllFormedGraph"):
        d = common.workdir("irgen")
        mod = "MC_IR_vac_%s" % inv
        with open(os.path.join(d, mod + ".tla"), "w") as f:
            f.write('---- MODULE %s ----\nEXTENDS IR\nMCKinds == {"call", "inpl"}\n====\n' % mod)
        cfg = os.path.join(d, mod + ".cfg")
        with open(cfg, "w") as f:
            f.write("SPECIFICATION Spec\nCONSTANTS\n  NIn = 2\n  NNodes = 2\n  Kinds <- MCKinds\n  MaxOuts = 2\n  Shard = 0\n  NShards = 1\nINVARIANT %s\nCHECK_DEADLOCK FALSE\n" % inv)
        res = common.run_tlc(os.path.join(d, mod + ".tla"), cfg, workers=2, timeout=600)
        out[inv] = res.violated == inv
        if not out[inv]:
            raise common.MachineryError("vacuity guard: TLC did not refute %s on IR.tla\n%s" % (inv, res.out[-1500:]))
    rep.extra["ir_vacuity_guards_refuted"] = out
