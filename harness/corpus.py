"""Runs Cases.tla under TLC and returns the exported cases (with their Denote tables)."""
import hashlib
import json
import os
import concurrent.futures as cf

import common

NAME_ORDER = ["a", "b", "c", "d", "h", "w"]

# length assignments aligned with NAME_ORDER; chosen to contain unit axes, equal lengths on different axes and distinct lengths
LENS_QUICK = [(2, 3, 2, 2, 2, 3), (1, 2, 3, 2, 3, 2)]
LENS_THOROUGH = LENS_QUICK + [(2, 2, 2, 2, 2, 2), (3, 1, 2, 1, 1, 3), (2, 3, 1, 3, 3, 1), (3, 2, 3, 1, 2, 2), (2, 1, 2, 2, 1, 2)]


MODE = {"cases": ("Cases", "Emit", ["WellDefinedInv", "C14_ContribPartition"], "C", "Spec"),
        "equiv": ("Equiv", "EmitRel", ["C08_Equivariance"], "R", "Spec"),
        "short": ("Shorthand", "EmitPairs", ["C07_BothParse", "C07_SyntacticSame"], "P", "SpecShort")}


def _run_one(args):
    fam, names, lens, maxdims, maxleaves, tag, timeout, mode = args
    base, emit, invs, _, specname = MODE[mode]
    d = common.workdir("corpus")
    mod = "MC_%s_%s" % (base, tag)
    with open(os.path.join(d, mod + ".tla"), "w") as f:
        f.write(("---- MODULE %s ----\nEXTENDS " + base + "\nMCLens == {%s}\nMCOrder == %s\n====\n") % (
            mod, ", ".join(common.tla_expr(list(l)) for l in lens), common.tla_expr(NAME_ORDER)))
    cfg = os.path.join(d, mod + ".cfg")
    with open(cfg, "w") as f:
        f.write("\n".join(["SPECIFICATION " + specname, "CONSTANTS", '  Family = "%s"' % fam, "  Names = %s" % common.tla_value(set(names)),
                           "  Lens <- MCLens", "  NameOrder <- MCOrder", "  MaxDims = %d" % maxdims, "  MaxLeaves = %d" % maxleaves, "  Shard = 0", "  NShards = 1",
                           "CONSTRAINT " + emit] + ["INVARIANT " + i for i in invs] + ["CHECK_DEADLOCK FALSE"]) + "\n")
    res = common.run_tlc(os.path.join(d, mod + ".tla"), cfg, workers=1, timeout=timeout)
    return fam, tag, res


def _spec_hash():
    h = hashlib.sha1()
    for f in ("Loop.tla", "Cases.tla", "Equiv.tla", "Shorthand.tla", "Parse.tla"):
        with open(os.path.join(common.SPEC, f), "rb") as fh:
            h.update(fh.read())
    return h.hexdigest()[:16]


def generate(rep, specs, timeout=1500, mode="cases"):
    """specs: list of (family, names, lens(list of tuples), maxdims, maxleaves).  One JVM per (spec, length assignment).
    The exported corpus only depends on Loop.tla, Cases.tla and the parameters, never on /repo: it is cached under
    .work/cache keyed by their hash, and the TLC statistics of the generating run are reported with cached=true."""
    cdir = os.path.join(common.VERIF, ".work", "cache")
    os.makedirs(cdir, exist_ok=True)
    key = hashlib.sha1((_spec_hash() + mode + json.dumps(specs, sort_keys=True)).encode()).hexdigest()[:20]
    cpath = os.path.join(cdir, "corpus_%s.json" % key)
    if os.path.exists(cpath) and not os.environ.get("VERIF_NO_CACHE"):
        with open(cpath) as f:
            d = json.load(f)
        for r in d["tlc_runs"]:
            r = dict(r, cached=True)
            rep.tlc_runs.append(r)
            rep.states += r.get("distinct_states", 0)
            rep.transitions += r.get("states_generated", 0)
        return d["cases"]
    n_before = len(rep.tlc_runs)
    nviol = len(rep.violations)
    cases = _generate(rep, specs, timeout, mode)
    if len(rep.violations) == nviol and not any(r.get("timeout") for r in rep.tlc_runs[n_before:]):
        tmp = cpath + ".%d.tmp" % os.getpid()
        with open(tmp, "w") as f:
            json.dump({"cases": cases, "tlc_runs": rep.tlc_runs[n_before:]}, f)
        os.replace(tmp, cpath)
    return cases


def _generate(rep, specs, timeout, mode):
    jobs = []
    for si, (fam, names, lens, maxdims, maxleaves) in enumerate(specs):
        for li, l in enumerate(lens):
            jobs.append((fam, names, [l], maxdims, maxleaves, "%s_%d_%d" % (fam, si, li), timeout, mode))
    cases = []
    with cf.ThreadPoolExecutor(min(16, len(jobs))) as ex:
        for fam, tag, res in ex.map(_run_one, jobs):
            if res.rc == 124:
                rep.tlc_runs.append({"config": "Cases " + tag, "timeout": True})
                rep.exhaustive = False
                continue
            rep.add_tlc("Cases.tla family=%s (%s)" % (fam, tag), res)
            if res.violated:
                rep.violation({"kind": "model", "invariant": res.violated, "family": fam}, {"tag": tag},
                              "TLC: %s violated on the denotation of family %s\n%s" % (res.violated, fam, res.counterexample()[:3000]))
            cs = res.printed(MODE[mode][3])
            cases.extend(cs)
    return cases


# a unit axis between two axes of EQUAL length (b = 1, a = c = 2): moving only the unit axis is a reshape, moving the equal
# axes is not, and shapes cannot tell the two apart
LENS_UNIT_BETWEEN_EQUAL = (2, 1, 2, 2, 1, 2)


def quick_specs(lens=None):
    lens = lens or LENS_QUICK
    lens3 = list(lens) + ([LENS_UNIT_BETWEEN_EQUAL] if LENS_UNIT_BETWEEN_EQUAL not in lens else [])
    return [("id", ["a", "b"], lens, 2, 3), ("iddiag", ["a", "b", "c"], lens, 3, 3), ("idcat", ["a", "b"], lens, 3, 3),
            ("elementwise", ["a", "b"], lens, 2, 2), ("reduce", ["a", "b", "c"], lens3, 3, 3), ("preserve", ["a", "b", "c"], lens3, 3, 3),
            ("argfind", ["a", "b", "c"], lens3, 3, 3), ("dot", ["a", "b"], lens, 2, 2), ("dot", ["a", "b"], lens[:1], 3, 3),
            ("get_at", ["a", "b"], lens, 2, 3), ("update_at", ["a", "b"], lens, 2, 3)]


def thorough_specs():
    """the quick families under all seven length assignments, plus larger expression bounds (three names / four leaves)
    under the first assignment; sized so that a thorough run of every check terminates (use cap() per check)"""
    base = quick_specs(LENS_THOROUGH)
    one = LENS_QUICK[:1]
    extra = [("id", ["a", "b", "c"], one, 2, 3), ("idcat", ["a", "b", "c"], one, 3, 3), ("elementwise", ["a", "b", "c"], one, 2, 2),
             ("reduce", ["a", "b", "c"], one, 3, 4), ("preserve", ["a", "b", "c"], one, 3, 4), ("argfind", ["a", "b", "c"], one, 3, 4),
             ("get_at", ["a", "b", "c"], one, 2, 3)]
    return base + extra


def cap(cases, n):
    """at most n cases, taken evenly over the enumeration order (every family and length assignment stays represented)"""
    if len(cases) <= n:
        return cases
    step = len(cases) / float(n)
    return [cases[int(i * step)] for i in range(n)]
