"""Line-level pre-emption of real einx calls on real threads (C10).

Each execution runs in a forked child of a parent that has imported (and warmed up the module imports of)
einx but never used the operations under test, with the global backend registry reset to its import-time
state: per-operation compile caches, the registry memo and the lazily initialised state are all cold.
2-3 threads run short programs of einx calls and `with backend:` blocks.  A baton makes exactly one thread
run at a time; `sys.settrace` gives a yield point before every source line of einx/_src, where a seeded RNG
decides whether to hand the baton to another thread - i.e. pre-emption is possible between any two source
lines of einx's registry, cache and tracing code, deterministically per seed.

Checked: (a) every call returns the value numpy computes directly and none fails; (b) the recorded sequence
of shared registry accesses with the per-call registry results is a behaviour of RegistryConc.tla (TLC,
Trace_RegistryConc.tla) in which C10_Linearizable holds."""
import json
import os
import random
import sys
import threading
import time

import numpy as np

import common
import drive_conc as DC

EINX_SRC = None


class Baton:
    def __init__(self, names, rng, p):
        self.cv = threading.Condition()
        self.cur = None
        self.alive = set(names)
        self.rng = rng
        self.p = p
        self.tls = threading.local()
        self.switches = 0
        self.dead = None

    def me(self):
        return getattr(self.tls, "name", None)

    def wait_turn(self, me):
        with self.cv:
            if not self.cv.wait_for(lambda: self.cur == me or self.dead, timeout=30):
                self.dead = "thread %s never got the baton" % me
            if self.dead:
                raise RuntimeError(self.dead)

    def switch(self, me, forced=False):
        others = sorted(self.alive - {me})
        if not others:
            if forced:
                self.dead = "thread %s waits for a lock that no running thread can release (deadlock)" % me
                with self.cv:
                    self.cv.notify_all()
                raise RuntimeError(self.dead)
            return
        nxt = self.rng.choice(others)
        self.switches += 1
        with self.cv:
            self.cur = nxt
            self.cv.notify_all()
            if not self.cv.wait_for(lambda: self.cur == me or self.dead, timeout=30):
                self.dead = "thread %s never got the baton back" % me
            if self.dead:
                raise RuntimeError(self.dead)

    def yield_point(self):
        me = self.me()
        if me is None:
            return
        if self.rng.random() < self.p:
            self.switch(me)

    def finish(self, me):
        with self.cv:
            self.alive.discard(me)
            if self.alive and self.cur == me:
                self.cur = self.rng.choice(sorted(self.alive))
            self.cv.notify_all()


class CoopLock:
    """use_lock replacement: never blocks while holding the baton; logs acq/rel in true order"""

    def __init__(self, baton_ref, log):
        self._l = threading.Lock()
        self._b = baton_ref
        self._log = log

    def acquire(self, blocking=True, timeout=-1):
        b = self._b[0]
        me = b.me() if b else None
        while not self._l.acquire(False):
            if b is None or me is None:
                self._l.acquire()
                break
            b.switch(me, forced=True)
        if me is not None:
            self._log.append([me, "acq"])
        return True

    def release(self):
        b = self._b[0]
        me = b.me() if b else None
        if me is not None:
            self._log.append([me, "rel"])
        self._l.release()

    def __enter__(self):
        self.acquire()
        return self

    def __exit__(self, *a):
        self.release()


_installed = {}


def install():
    """Turn the global registry into a traced one (once per process).  Returns the control block."""
    if _installed:
        return _installed
    import einx  # noqa
    import einx._src.frontend.backend as B
    global EINX_SRC
    EINX_SRC = os.path.dirname(os.path.dirname(os.path.abspath(B.__file__)))  # .../einx/_src
    reg = B.registry
    log = []
    baton_ref = [None]
    reslog = {}

    def tname():
        b = baton_ref[0]
        return b.me() if b else None

    class TracedGlobalRegistry(B.BackendRegistry):
        @property
        def state(self):
            t = tname()
            if t is not None:
                log.append([t, "read"])
            return self.__dict__["_state"]

        @state.setter
        def state(self, v):
            t = tname()
            if t is not None:
                log.append([t, "write"])
            self.__dict__["_state"] = v

        def get(self, backend=None, tensors=None):
            t = tname()
            try:
                b = B.BackendRegistry.get(self, backend, tensors)
            except Exception as e:
                if t is not None:
                    reslog.setdefault(t, []).append({"k": "err", "v": type(e).__name__})
                raise
            if t is not None:
                reslog.setdefault(t, []).append({"k": "ok", "v": b.name})
            return b

    cold = reg.__dict__.pop("state")
    reg.__dict__["_state"] = cold
    reg.__class__ = TracedGlobalRegistry
    reg.use_lock = CoopLock(baton_ref, log)
    _installed.update(reg=reg, log=log, baton_ref=baton_ref, reslog=reslog, cold=cold, B=B)
    return _installed


# ---------------------------------------------------------------------------
# programs

def _arr(shape, k):
    n = int(np.prod(shape)) if shape else 1
    return (np.arange(n, dtype=np.float64).reshape(shape) * (k + 1) + k)


CALLS = {
    "add": ("add", "a b, b -> a b", [(2, 3), (3,)], lambda x, y: x + y[None, :]),
    "sum": ("sum", "a [b]", [(2, 3)], lambda x: x.sum(axis=1)),
    "dot": ("dot", "a [b], [b] c -> a c", [(2, 3), (3, 2)], lambda x, y: x @ y),
    "sub": ("subtract", "a, b -> b a", [(2,), (3,)], lambda x, y: x[None, :] - y[:, None]),
    "flip": ("flip", "a [b]", [(2, 3)], lambda x: x[:, ::-1]),
    "sum2": ("sum", "[a] b", [(2, 3)], lambda x: x.sum(axis=0)),
    # the same operation with different descriptions on SQUARE tensors: an artefact stored under another call's cache key
    # has the right shape and the wrong values
    "rows": ("sum", "a [b]", [(3, 3)], lambda x: x.sum(axis=1)),
    "cols": ("sum", "[a] b", [(3, 3)], lambda x: x.sum(axis=0)),
    "fliprows": ("flip", "a [b]", [(3, 3)], lambda x: x[:, ::-1]),
    "flipcols": ("flip", "[a] b", [(3, 3)], lambda x: x[::-1, :]),
    "addt": ("add", "a b, b a -> a b", [(3, 3), (3, 3)], lambda x, y: x + y.T),
    "addn": ("add", "a b, a b -> a b", [(3, 3), (3, 3)], lambda x, y: x + y),
}

# (thread programs) items: ("call", key) | ("with", backend name, [items])
PROGRAM_POOL = [
    [("call", "add")],
    [("call", "sum")],
    [("call", "dot")],
    [("with", "numpy", [("call", "add")])],
    [("with", "numpy", [("call", "sub")])],
    [("call", "flip"), ("call", "sum2")],
    [("call", "add"), ("call", "add")],
    [("with", "numpy", [("with", "numpy", [("call", "sum")])])],
    [("call", "sum"), ("with", "numpy", [("call", "dot")])],
]


# first-time compilation of the SAME operation under different cache keys in different threads, each followed by a cached repeat
CACHE_POOL = [
    [("call", "rows"), ("call", "rows")],
    [("call", "cols"), ("call", "cols")],
    [("call", "fliprows"), ("call", "fliprows")],
    [("call", "flipcols"), ("call", "flipcols")],
    [("call", "addt"), ("call", "addt")],
    [("call", "addn"), ("call", "addn")],
]


def registry_prog(items):
    out = []
    for it in items:
        if it[0] == "call":
            n = len(CALLS[it[1]][2])
            out.append({"m": "get", "arg": {"k": "none", "v": "nil"}, "tt": ["nd"] * n})
        else:
            out.append({"m": "enter", "arg": {"k": "obj", "v": it[1]}, "tt": []})
            out.extend(registry_prog(it[2]))
            out.append({"m": "exit", "arg": {"k": "obj", "v": it[1]}, "tt": []})
    return out


def run_items(items, ctl, me, record):
    import einx
    B = ctl["B"]
    for it in items:
        if it[0] == "call":
            opname, desc, shapes, ref = CALLS[it[1]]
            args = [_arr(s, i) for i, s in enumerate(shapes)]
            try:
                val = getattr(einx, opname)(desc, *args)
                ok = np.allclose(np.asarray(val), ref(*args)) and np.asarray(val).shape == ref(*args).shape
                record.append({"call": it[1], "outcome": "ok" if ok else "WRONG-VALUE"})
            except Exception as e:
                record.append({"call": it[1], "outcome": "EXC:" + type(e).__name__ + ":" + str(e)[:200]})
        else:
            obj = ctl["objs"][it[1]]
            try:
                ctl["reg"].enter(obj)
                ctl["reslog"].setdefault(me, []).append({"k": "none", "v": "nil"})
            except Exception as e:
                ctl["reslog"].setdefault(me, []).append({"k": "err", "v": type(e).__name__})
                record.append({"call": "enter", "outcome": "EXC:" + type(e).__name__})
            run_items(it[2], ctl, me, record)
            try:
                ctl["reg"].exit(obj)
                ctl["reslog"].setdefault(me, []).append({"k": "none", "v": "nil"})
            except Exception as e:
                ctl["reslog"].setdefault(me, []).append({"k": "err", "v": type(e).__name__})
                record.append({"call": "exit", "outcome": "EXC:" + type(e).__name__})


def execute(progs, seed, p):
    """run in a fresh (forked) process. progs: {thread: items}. returns dict."""
    ctl = install()
    reg = ctl["reg"]
    reg.__dict__["_state"] = ctl["cold"]
    # backend objects for with-blocks, obtained without disturbing the cold state
    tmp = ctl["cold"]
    st, b = tmp.get_by_name("numpy")
    ctl["objs"] = {"numpy": b}
    # the backend object must also be the one a later lookup returns: start from the state that already
    # contains the instantiated backends (identical to cold for backends registered at import)
    del ctl["log"][:]
    ctl["reslog"].clear()
    rng = random.Random(seed)
    baton = Baton(list(progs), rng, p)
    ctl["baton_ref"][0] = baton
    records = {t: [] for t in progs}

    def tracefn(frame, event, arg):
        if event == "call" and frame.f_code.co_filename.startswith(EINX_SRC):
            return local
        return None

    def local(frame, event, arg):
        if event == "line":
            baton.yield_point()
        return local

    def body(t):
        baton.tls.name = t
        try:
            baton.wait_turn(t)
            sys.settrace(tracefn)
            run_items(progs[t], ctl, t, records[t])
        except BaseException as e:  # noqa
            records[t].append({"call": "thread", "outcome": "EXC:" + type(e).__name__ + ":" + str(e)[:200]})
        finally:
            sys.settrace(None)
            baton.finish(t)

    threads = [threading.Thread(target=body, args=(t,), daemon=True) for t in progs]
    for th in threads:
        th.start()
    with baton.cv:
        baton.cur = rng.choice(sorted(progs))
        baton.cv.notify_all()
    t0 = time.time()
    for th in threads:
        th.join(timeout=60)
    stuck = [th for th in threads if th.is_alive()]
    ctl["baton_ref"][0] = None
    final_stack = [b.name for b in reg.__dict__["_state"].use_stack]
    return {"prog": {t: registry_prog(progs[t]) for t in progs}, "sched": list(ctl["log"]),
            "results": {t: ctl["reslog"].get(t, []) for t in progs}, "records": records, "stuck": bool(stuck) or bool(baton.dead),
            "dead": baton.dead, "switches": baton.switches, "final_stack": final_stack, "seed": seed, "p": p,
            "items": {t: progs[t] for t in progs}}


def run_forked(task):
    progs, seed, p = task
    r, w = os.pipe()
    pid = os.fork()
    if pid == 0:
        try:
            os.close(r)
            try:
                res = execute(progs, seed, p)
            except BaseException as e:  # noqa
                res = {"machinery_error": repr(e)}
            with os.fdopen(w, "w") as f:
                json.dump(res, f)
        finally:
            os._exit(0)
    os.close(w)
    with os.fdopen(r) as f:
        data = f.read()
    os.waitpid(pid, 0)
    if not data:
        return {"machinery_error": "child died"}
    return json.loads(data)


def run_forked_chunk(tasks):
    return [run_forked(t) for t in tasks]


def warmup():
    """import everything einx needs lazily, without touching the operations under test or leaving registry state"""
    ctl = install()
    import einx
    x = np.ones((2, 3))
    einx.multiply("a b, b", x, np.ones(3))
    einx.max("a [b]", x)
    einx.id("a b -> (a b)", x)
    try:
        einx.id("a -> b", x)
    except Exception:
        pass
    ctl["reg"].__dict__["_state"] = ctl["cold"]


def gen_tasks(rng, n, nthreads_choices=(2, 2, 3)):
    tasks = []
    for i in range(n):
        nt = rng.choice(nthreads_choices)
        if i % 3 == 2:
            # compile-cache focus: the threads use the same operation (pairs 0/1, 2/3, 4/5 of CACHE_POOL) with different keys
            base = 2 * rng.randrange(len(CACHE_POOL) // 2)
            progs = {"t%d" % (k + 1): CACHE_POOL[base + (k % 2)] for k in range(nt)}
        else:
            progs = {"t%d" % (k + 1): rng.choice(PROGRAM_POOL) for k in range(nt)}
        tasks.append((progs, rng.randrange(1 << 30), rng.choice([0.002, 0.01, 0.05, 0.2])))
    return tasks


GLOBAL_CFG0 = {"numpy": {"fw": "numpy", "prio": -1, "lazy": True, "healthy": True},
               "numpy.numpylike": {"fw": "numpy", "prio": -5, "lazy": True, "healthy": True},
               "numpy.einsum": {"fw": "numpy", "prio": -5, "lazy": True, "healthy": True}}


def validate(rep, runs, shapes):
    d = common.workdir("c10lines")
    by_threads = {}
    for r in runs:
        by_threads.setdefault(len(r["prog"]), []).append(r)
    accepted_total = 0
    for nt, rs in sorted(by_threads.items()):
        threads = ["t%d" % (k + 1) for k in range(nt)]
        name = "Trace_RC_%d" % nt
        sh = {m: shapes[m] for m in ("get", "get_by_name", "enter", "exit", "register")}
        with open(os.path.join(d, name + ".tla"), "w") as f:
            f.write("\n".join(["---- MODULE %s ----" % name, "EXTENDS Trace_RegistryConc",
                               "MCShape == " + common.tla_expr(sh),
                               "MCCfg0 == " + common.tla_expr(GLOBAL_CFG0),
                               'MCDecl0 == <<"numpy.numpylike", "numpy.einsum", "numpy">>',
                               'MCImp == <<"numpy">>', "===="]) + "\n")
        cfg = os.path.join(d, name + ".cfg")
        with open(cfg, "w") as f:
            f.write("\n".join(["SPECIFICATION TSpec", "CONSTANTS",
                               '  BackendIds = {"numpy", "numpy.numpylike", "numpy.einsum"}', '  Mods = {"numpy"}',
                               "  OpenWorld = TRUE", "  MaxStack = 8", '  CfgSpace = "full"', "  PublicRegistryMethods = TRUE",
                               "  Threads = {%s}" % ", ".join('"%s"' % t for t in threads),
                               "  Shape <- MCShape", "  Programs = {}", "  Cfg0 <- MCCfg0", "  Decl0 <- MCDecl0",
                               "  ImpDecl <- MCImp", "  Imp0 <- MCImp",
                               "INVARIANT C10_Linearizable", "INVARIANT ResultsAgree", "INVARIANT LockFreeAtEnd",
                               "POSTCONDITION TraceAccepted", "CHECK_DEADLOCK FALSE"]) + "\n")
        path = os.path.join(d, "traces_%d.ndjson" % nt)
        with open(path, "w") as f:
            for r in rs:
                f.write(json.dumps({"prog": r["prog"], "sched": r["sched"], "results": r["results"]}) + "\n")
        res = common.run_tlc(os.path.join(d, name + ".tla"), cfg, workers=1, env={"TRACE_FILE": path})
        rep.add_tlc("Trace_RegistryConc, %d threads, %d recorded executions" % (nt, len(rs)), res)
        acc = None
        rej = []
        for line in res.out.splitlines():
            if line.startswith('<<"ACCEPTED"'):
                acc = int(line.strip("<>").split(", ")[1])
            if line.startswith('<<"REJECT"'):
                parts = line.strip("<>").split(", ")
                rej.append((int(parts[1]), int(parts[2])))
        if res.violated:
            rep.violation({"kind": "lines-trace-invariant", "invariant": res.violated}, {"counterexample": res.counterexample()[:6000]},
                          "an execution of real einx calls under line-level pre-emption violates %s" % res.violated)
        elif acc is None:
            raise common.MachineryError("Trace_RegistryConc gave no verdict\n" + res.out[-3000:])
        else:
            accepted_total += acc
        for (t, l) in rej[:5]:
            r = rs[t - 1]
            rep.violation({"kind": "lines-trace-rejected", "event": json.dumps(r["sched"][l - 1]) if l - 1 < len(r["sched"]) else "end"},
                          {"run": r, "first_unmatched_event": l},
                          "recorded access trace is not a behaviour of RegistryConc.tla at event %d of %s" % (l, r["sched"][:l + 2]))
    return accepted_total


def check(rep, tier, seed):
    shapes = rep.extra["measured_shapes"]
    warmup()
    rng = random.Random(seed * 104729 + 5)
    n = 160 if tier == "quick" else 3000
    tasks = gen_tasks(rng, n)
    runs = common.parallel_map("run_forked_chunk", sys.modules[__name__], tasks, nproc=min(16, common.NCPU))
    good = []
    for task, r in zip(tasks, runs):
        if "machinery_error" in r:
            raise common.MachineryError("line-level run failed: %s" % r["machinery_error"])
        rep.evaluations += 1
        if r["switches"] > 0:
            rep.nontriv("lines:%d" % r["seed"])
        bad = [(t, x) for t, rec in r["records"].items() for x in rec if x["outcome"] != "ok"]
        if r["stuck"]:
            rep.violation({"kind": "lines-stuck", "dead": str(r["dead"])[:80]}, {"run": r},
                          "threads did not finish under line-level pre-emption: %s" % r["dead"])
            continue
        if bad:
            t, x = bad[0]
            rep.violation({"kind": "lines-call-failed", "call": x["call"], "outcome": x["outcome"].split(":")[0] + ":" + (x["outcome"].split(":") + [""])[1]},
                          {"run": r},
                          "under line-level pre-emption (seed %d, p=%s) thread %s: call %s -> %s ; programs %s" % (
                              r["seed"], r["p"], t, x["call"], x["outcome"], r["items"]))
            continue
        if r["final_stack"]:
            rep.violation({"kind": "lines-final-stack"}, {"run": r}, "with-stack not empty after all threads finished: %s" % r["final_stack"])
            continue
        good.append(r)
    acc = validate(rep, good, shapes) if good else 0
    rep.validated += acc
    if good:
        r = good[0]
        rep.sample({"line_level_run": {"programs": r["items"], "switches": r["switches"], "accesses": ["%s:%s" % (a, b) for a, b in r["sched"]][:40]}})
    rep.extra["line_level"] = {"executions": len(runs), "accepted_by_TLC": acc,
                               "mean_switches": round(sum(r.get("switches", 0) for r in runs) / max(1, len(runs)), 1)}
