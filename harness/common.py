"""Shared machinery: TLC runner, summary/coverage parsing, evidence files,
violations / known findings, scratch directories.

Everything here is stdlib-only and runs under /venv/bin/python."""
import atexit
import hashlib
import json
import os
import re
import shutil
import subprocess
import sys
import tempfile
import time

VERIF = os.path.dirname(os.path.dirname(os.path.abspath(__file__)))
REPO = os.environ.get("EINX_REPO", "/repo")
SPEC = os.path.join(VERIF, "spec")
# mutation runs (tools/mut_matrix.py) redirect evidence and replay files so that they never overwrite the evidence of /repo
OUTDIR = os.environ.get("VERIF_OUT", VERIF)
PY = "/venv/bin/python"
TLA_JAR = "/opt/veriftools/tla/tla2tools.jar"
NCPU = os.cpu_count() or 4

os.makedirs(os.path.join(VERIF, ".work"), exist_ok=True)
_WORK = tempfile.mkdtemp(prefix="w.", dir=os.path.join(VERIF, ".work"))
_MAIN_PID = os.getpid()


def _cleanup():
    if os.getpid() == _MAIN_PID:
        shutil.rmtree(_WORK, ignore_errors=True)


atexit.register(_cleanup)


def workdir(name=None):
    if name is None:
        return _WORK
    d = os.path.join(_WORK, name)
    os.makedirs(d, exist_ok=True)
    return d


def seed():
    try:
        return int(os.environ.get("VERIF_SEED", "0"))
    except ValueError:
        return 0


class MachineryError(Exception):
    pass


# ---------------------------------------------------------------------------
# TLC


def _classpath():
    cp = [TLA_JAR]
    d = os.path.dirname(TLA_JAR)
    for f in sorted(os.listdir(d)):
        if f.endswith(".jar") and os.path.join(d, f) != TLA_JAR:
            cp.append(os.path.join(d, f))
    return ":".join(cp)


_TLC_LAUNCH = None


def _tlc_launch():
    """Work out how the `tlc` wrapper launches java so that we can pass JVM options."""
    global _TLC_LAUNCH
    if _TLC_LAUNCH is None:
        _TLC_LAUNCH = ["tlc"]
    return _TLC_LAUNCH


class TLCResult:
    def __init__(self, out, rc, wall):
        self.out = out
        self.rc = rc
        self.wall = wall
        self.generated = 0
        self.distinct = 0
        self.queue = 0
        self.depth = 0
        self.violated = None  # name of violated invariant / property
        self.error = None
        self.coverage = {}
        self._parse()

    def _parse(self):
        m = re.search(r"(\d+) states generated, (\d+) distinct states found, (\d+) states left on queue", self.out)
        if m:
            self.generated, self.distinct, self.queue = (int(m.group(i)) for i in (1, 2, 3))
        m = re.search(r"The number of states generated: (\d+)", self.out)
        if m and not self.generated:
            self.generated = int(m.group(1))
            self.distinct = self.generated
        m = re.search(r"depth of the complete state graph search is (\d+)", self.out)
        if m:
            self.depth = int(m.group(1))
        m = re.search(r"Error: Invariant (\S+) is violated", self.out)
        if m:
            self.violated = m.group(1)
        m = re.search(r"Error: Action property (\S+) is violated", self.out)
        if m:
            self.violated = m.group(1)
        if re.search(r"Error: Temporal properties were violated", self.out):
            self.violated = self.violated or "temporal"
        m = re.search(r"Error: Deadlock reached", self.out)
        if m:
            self.violated = "Deadlock"
        if self.violated is None:
            m = re.search(r"^Error: (.*)$", self.out, re.M)
            if m:
                self.error = m.group(1)
        # coverage: <Action line .. of module M>: distinct:generated
        for m in re.finditer(r"^<(\w+) line \d+, col \d+ to line \d+, col \d+ of module (\w+)>: (\d+):(\d+)", self.out, re.M):
            name = m.group(1)
            self.coverage[name] = self.coverage.get(name, 0) + int(m.group(4))

    @property
    def ok(self):
        return self.violated is None and self.error is None and "Model checking completed. No error has been found." in self.out or (
            self.violated is None and self.error is None and "Finished in" in self.out and self.rc == 0
        )

    def counterexample(self):
        i = self.out.find("Error: The behavior up to this point is:")
        if i < 0:
            return ""
        j = self.out.find("states generated", i)
        return self.out[i : j if j > 0 else None]

    def printed(self, tag):
        """Values printed with PrintT(<<tag, ToJson(v)>>), decoded."""
        res = []
        pat = '<<"%s", "' % tag
        for line in self.out.splitlines():
            if line.startswith(pat) and line.endswith('">>'):
                body = line[len(pat) - 1 : -2]
                res.append(json.loads(json.loads(body)))
        return res


def run_tlc(module_path, cfg_path, *, workers=None, simulate=None, depth=None, tlc_seed=None, coverage=False,
            timeout=None, extra=(), env=None, deadlock=False, jvm=(), cwd=None):
    """Run TLC on module/config.  Returns TLCResult.  module_path may live in any directory;
    the spec directory is added to the library path through -DTLA-Library."""
    meta = tempfile.mkdtemp(prefix="tlc.", dir=workdir())
    cmd = ["java", "-XX:+UseParallelGC", "-XX:ParallelGCThreads=%d" % (2 if (workers or NCPU) <= 2 else 8), "-Xmx%s" % ("4g" if (workers or NCPU) <= 2 else "12g"), "-DTLA-Library=" + SPEC + ":" + os.path.join(SPEC, "mc"), *jvm,
           "-cp", _classpath(), "tlc2.TLC",
           "-metadir", meta, "-noGenerateSpecTE", "-config", cfg_path]
    cmd += ["-workers", str(workers if workers is not None else NCPU)]
    if simulate is not None:
        cmd += ["-simulate", simulate]
    if depth is not None:
        cmd += ["-depth", str(depth)]
    if tlc_seed is not None:
        cmd += ["-seed", str(tlc_seed)]
    if coverage:
        cmd += ["-coverage", "1"]
    if deadlock:
        cmd += ["-deadlock"]
    cmd += list(extra)
    cmd += [module_path]
    e = dict(os.environ)
    if env:
        e.update(env)
    t0 = time.time()
    try:
        p = subprocess.run(cmd, stdout=subprocess.PIPE, stderr=subprocess.STDOUT, text=True, timeout=timeout, env=e,
                           cwd=cwd or os.path.dirname(module_path))
        out, rc = p.stdout, p.returncode
    except subprocess.TimeoutExpired as ex:
        out = (ex.stdout or b"").decode() if isinstance(ex.stdout, bytes) else (ex.stdout or "")
        out += "\nTIMEOUT\n"
        rc = 124
    finally:
        shutil.rmtree(meta, ignore_errors=True)
    return TLCResult(out, rc, time.time() - t0)


def write_cfg(path, *, spec=None, init=None, next_=None, constants=None, invariants=(), properties=(), constraints=(),
              action_constraints=(), view=None, postcondition=None, symmetry=None, deadlock=False):
    lines = []
    if spec:
        lines.append("SPECIFICATION " + spec)
    if init:
        lines.append("INIT " + init)
    if next_:
        lines.append("NEXT " + next_)
    if constants:
        lines.append("CONSTANTS")
        for k, v in constants.items():
            lines.append("  %s = %s" % (k, tla_value(v)))
    for c in constraints:
        lines.append("CONSTRAINT " + c)
    for c in action_constraints:
        lines.append("ACTION_CONSTRAINT " + c)
    for i in invariants:
        lines.append("INVARIANT " + i)
    for p in properties:
        lines.append("PROPERTY " + p)
    if view:
        lines.append("VIEW " + view)
    if symmetry:
        lines.append("SYMMETRY " + symmetry)
    if postcondition:
        lines.append("POSTCONDITION " + postcondition)
    lines.append("CHECK_DEADLOCK " + ("TRUE" if deadlock else "FALSE"))
    with open(path, "w") as f:
        f.write("\n".join(lines) + "\n")
    return path


class Raw(str):
    """A TLA+ expression to be written verbatim into a cfg."""


def tla_value(v):
    if isinstance(v, Raw):
        return str(v)
    if isinstance(v, bool):
        return "TRUE" if v else "FALSE"
    if isinstance(v, int):
        return str(v)
    if isinstance(v, str):
        return '"%s"' % v
    if isinstance(v, (set, frozenset)):
        return "{" + ", ".join(tla_value(x) for x in sorted(v, key=repr)) + "}"
    if isinstance(v, (list, tuple)):
        return "<<" + ", ".join(tla_value(x) for x in v) + ">>"
    raise TypeError(v)


def tla_expr(v):
    """Python value -> TLA+ expression text (for generated modules)."""
    if isinstance(v, dict):
        if not v:
            return "<<>>"
        if all(re.fullmatch(r"[A-Za-z][A-Za-z0-9_]*", k) for k in v):
            return "[" + ", ".join("%s |-> %s" % (k, tla_expr(x)) for k, x in v.items()) + "]"
        return "(" + " @@ ".join('("%s" :> %s)' % (k, tla_expr(x)) for k, x in v.items()) + ")"
    if isinstance(v, (list, tuple)):
        return "<<" + ", ".join(tla_expr(x) for x in v) + ">>"
    if isinstance(v, (set, frozenset)):
        return "{" + ", ".join(tla_expr(x) for x in sorted(v, key=repr)) + "}"
    return tla_value(v)


# ---------------------------------------------------------------------------
# Violations, known findings, evidence


def load_known():
    p = os.path.join(VERIF, "known_findings.json")
    if not os.path.exists(p):
        return []
    with open(p) as f:
        return json.load(f).get("findings", [])


class Report:
    """Collects what a check covered and what it found; writes evidence and decides the exit code."""

    def __init__(self, prop, tier, level="model_checking"):
        self.prop = prop
        self.tier = tier
        self.level = level
        self.t0 = time.time()
        self.states = 0
        self.transitions = 0
        self.traces = 0
        self.replayed = 0
        self.validated = 0
        self.evaluations = 0
        self.nontrivial = set()
        self.samples = []
        self.violations = []
        self.known_hits = {}
        self.assumptions = []
        self.extra = {}
        self.tlc_runs = []
        self.rule = ""
        self.exhaustive = None
        shutil.rmtree(os.path.join(OUTDIR, "replays", prop), ignore_errors=True)
        self.known = [k for k in load_known() if k.get("property") == prop and k.get("status") == "known"]

    # -- TLC bookkeeping
    def add_tlc(self, name, res, exhaustive=None):
        self.states += res.distinct
        self.transitions += res.generated
        self.tlc_runs.append({"config": name, "distinct_states": res.distinct, "states_generated": res.generated,
                              "depth": res.depth, "wall_s": round(res.wall, 1),
                              "finished": "Finished in" in res.out and res.rc in (0, 12, 13),
                              "actions": res.coverage or None})
        if res.error or (res.rc not in (0,) and res.violated is None):
            raise MachineryError("TLC failed on %s (rc=%s): %s\n%s" % (name, res.rc, res.error, res.out[-3000:]))

    def sample(self, s, limit=6):
        if len(self.samples) < limit:
            self.samples.append(s)

    def nontriv(self, key):
        self.nontrivial.add(key)

    # -- findings
    def violation(self, signature, case, detail):
        """signature: dict of stable features of the failure; matched against known findings."""
        for k in self.known:
            sig = k.get("signature", {})
            if all(signature.get(a) == b or (isinstance(b, list) and signature.get(a) in b) for a, b in sig.items()):
                ent = self.known_hits.setdefault(k["id"], {"finding": k, "count": 0, "first": case})
                ent["count"] += 1
                return False
        self.violations.append({"signature": signature, "case": case, "detail": detail})
        return True

    def finish(self):
        wall = time.time() - self.t0
        rdir = os.path.join(OUTDIR, "replays", self.prop)
        lines = []
        for kid, ent in sorted(self.known_hits.items()):
            k = ent["finding"]
            lines.append("KNOWN-FINDING: property=%s %s [%s; %d case(s) this run]" % (self.prop, k["what"], kid, ent["count"]))
        seen = set()
        nviol = 0
        for v in self.violations:
            key = json.dumps(v["signature"], sort_keys=True)
            if key in seen:
                continue
            seen.add(key)
            nviol += 1
            if nviol > 20:
                continue
            os.makedirs(rdir, exist_ok=True)
            dig = hashlib.sha1(json.dumps(v, sort_keys=True, default=str).encode()).hexdigest()[:12]
            path = os.path.join(rdir, dig + ".json")
            with open(path, "w") as f:
                json.dump({"property": self.prop, **v}, f, indent=1, default=str)
            lines.append("VIOLATION property=%s replay=%s" % (self.prop, path))
            lines.append("  " + json.dumps(v["signature"], sort_keys=True)[:300])
            lines.append("  " + str(v["detail"])[:600])
        cov = {
            "states": self.states,
            "transitions": self.transitions,
            "traces_validated_against_impl": self.replayed + self.validated,
            "replayed_spec_to_code": self.replayed,
            "validated_code_to_spec": self.validated,
            "evaluations": self.evaluations,
            "distinct_nontrivial": len(self.nontrivial),
            "rule": self.rule,
            "samples": self.samples or ["(none)"],
            "tlc_runs": self.tlc_runs,
            "known_findings_hit": {k: v["count"] for k, v in self.known_hits.items()},
        }
        sigc = {}
        for v in self.violations:
            k = json.dumps(v["signature"], sort_keys=True)
            sigc[k] = sigc.get(k, 0) + 1
        if sigc:
            cov["violation_signatures"] = sigc
        if self.exhaustive is not None:
            cov["exhaustive"] = bool(self.exhaustive)
        cov.update(self.extra)
        ev = {"property_id": self.prop, "tier": self.tier, "seed": seed(), "level": self.level, "coverage": cov,
              "assumptions": self.assumptions, "wall_s": round(wall, 2), "violations": len(self.violations)}
        os.makedirs(os.path.join(OUTDIR, "evidence"), exist_ok=True)
        with open(os.path.join(OUTDIR, "evidence", self.prop + ".json"), "w") as f:
            json.dump(ev, f, indent=1, default=str)
        for l in lines:
            print(l)
        print("%s %s: states=%d transitions=%d replayed=%d validated=%d evaluations=%d violations=%d known=%d wall=%.1fs" % (
            self.prop, self.tier, self.states, self.transitions, self.replayed, self.validated, self.evaluations,
            len(self.violations), sum(v["count"] for v in self.known_hits.values()), wall))
        sys.stdout.flush()
        return 1 if self.violations else 0


def parallel_map(fn_name, module, items, nproc=None, chunk=None):
    """Run `module.fn_name(list_of_items) -> list` in worker processes (fork), chunked."""
    import multiprocessing as mp
    nproc = nproc or NCPU
    if not items:
        return []
    chunk = chunk or max(1, (len(items) + nproc * 4 - 1) // (nproc * 4))
    chunks = [items[i:i + chunk] for i in range(0, len(items), chunk)]
    ctx = mp.get_context("fork")
    with ctx.Pool(nproc) as pool:
        res = pool.map(getattr(module, fn_name), chunks)
    out = []
    for r in res:
        out.extend(r)
    return out
