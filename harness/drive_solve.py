"""C02 replay: run einx.solve_axes / solve_shapes / matches on the systems exported by SolveCases.tla and classify the
real outcome against the specification's verdicts (brute-force solution set, Propagate)."""
import warnings

import numpy as np


class _Shaped:
    """anything with a .shape is a tensor for solve_* (frontend/util.py:_get_shape)"""
    def __init__(self, shape):
        self.shape = shape


def build_args(case, scale=None):
    tensors = []
    for sh in case["shapes"]:
        if sh == [-1]:
            tensors.append(None)
        else:
            tensors.append(_Shaped(tuple(int(x) for x in sh)))
    kw = {}
    for k in case["kw"]:
        v = k["v"]
        kw[k["n"]] = int(v[0]) if len(v) == 1 else tuple(int(x) for x in v)
    return tensors, kw


def norm_axes(res):
    """real solve_axes result -> (rho, L) in the specification's naming"""
    rho, L = {}, {}
    for n, v in res.items():
        if n.startswith("unnamed"):
            continue
        key = "_anon" if n.startswith(".anonymous") or n == "" else n
        a = np.asarray(v)
        if a.ndim == 0:
            L[key] = int(a)
        elif a.ndim == 1:
            rho[key] = int(a.shape[0])
            for i, x in enumerate(a.tolist()):
                L["%s.%d" % (key, i)] = int(x)
        else:
            L[key] = a.tolist()
    return rho, L


def outcome(fn):
    import einx
    try:
        with warnings.catch_warnings():
            warnings.simplefilter("ignore")
            return ("ok", fn())
    except (einx.errors.RankError, einx.errors.AxisSizeError) as e:
        return ("rejected", type(e).__name__)
    except Exception as e:
        return ("exc", type(e).__name__ + ": " + str(e)[:120])


def run_case(case):
    import einx
    desc = "".join(case["toks"])
    tensors, kw = build_args(case)
    findings = []
    sol = case["sol"][0] if case["sol"] else None
    if sol is not None:
        if not isinstance(sol["L"], dict):
            sol["L"] = {}
        if not isinstance(sol["rho"], dict):
            sol["rho"] = {}
    va, vs, prop = case["verdict_axes"], case["verdict_shapes"], case["propagate"]
    # --- solve_axes
    k, r = outcome(lambda: einx.solve_axes(desc, *tensors, **kw))
    if k == "exc":
        findings.append({"api": "solve_axes", "kind": "exception", "detail": r})
    elif k == "ok":
        rho, L = norm_axes(r)
        if va != "unique":
            findings.append({"api": "solve_axes", "kind": "unsound:%s" % va,
                             "detail": "returned %s although the constraints have %s" % (r, "no solution" if va == "none" else "%d solutions that differ" % case["nsol"])})
        else:
            expL = {n: v for n, v in sol["L"].items()}
            exprho = sol["rho"] if isinstance(sol["rho"], dict) else {}
            gotL = {n: v for n, v in L.items()}
            # the anonymous ellipsis axis is reported under an internal name or not at all: compare named axes
            expL2 = {n: v for n, v in expL.items() if not n.startswith("_anon")}
            gotL2 = {n: v for n, v in gotL.items() if not n.startswith("_anon")}
            if expL2 != gotL2:
                findings.append({"api": "solve_axes", "kind": "wrong-value", "detail": "returned %s, the unique solution is %s" % (gotL2, expL2)})
    else:
        if va == "unique" and prop:
            findings.append({"api": "solve_axes", "kind": "incomplete", "detail": "raised %s although every length follows by substitution (solution %s)" % (r, sol["L"])})
    # --- solve_shapes / matches
    k2, r2 = outcome(lambda: einx.solve_shapes(desc, *tensors, **kw))
    if k2 == "exc":
        findings.append({"api": "solve_shapes", "kind": "exception", "detail": r2})
    elif k2 == "ok":
        got = [list(int(x) for x in s) for s in r2]
        if vs != "unique":
            findings.append({"api": "solve_shapes", "kind": "unsound:%s" % vs, "detail": "returned %s although the constraints have %s" % (got, "no solution" if vs == "none" else "solutions with different shapes")})
        elif got != [list(s) for s in sol["shapes"]]:
            findings.append({"api": "solve_shapes", "kind": "wrong-value", "detail": "returned %s, the shapes in every solution are %s" % (got, sol["shapes"])})
    else:
        if va == "unique" and prop:
            findings.append({"api": "solve_shapes", "kind": "incomplete", "detail": "raised %s although every length follows by substitution" % (r2,)})
    k3, r3 = outcome(lambda: einx.matches(desc, *tensors, **kw))
    if k3 != "ok":
        findings.append({"api": "matches", "kind": "exception", "detail": str(r3)})
    else:
        if r3 and vs != "unique":
            findings.append({"api": "matches", "kind": "unsound:%s" % vs, "detail": "matches(...) is True although the constraints have %s" % ("no solution" if vs == "none" else "solutions with different shapes")})
        if (not r3) and va == "unique" and prop:
            findings.append({"api": "matches", "kind": "incomplete", "detail": "matches(...) is False although the system is uniquely solvable by substitution"})
    return findings


def run_chunk(cases):
    out = []
    for c in cases:
        try:
            out.append(run_case(c))
        except Exception:
            import traceback
            out.append([{"api": "-", "kind": "machinery", "detail": traceback.format_exc()[-600:]}])
    return out
