"""IR / code generation harness (C04).

* capture(): records every (graph, function, source text) that einx's Python code generator produces
  (tracer.compiler.python.compile is looked up as a module attribute through backend.compiler).
* evaluate(): direct evaluation of a traced graph node by node (each node once, effects logged) - the meaning the
  generated code has to reproduce.
* graph_term() / program_stmts(): the graph unfolded into a term, and the emitted program as statements over
  expression terms, in the uniform record format of Codegen.tla ({"t": tag, "s": string, "ch": [terms]})."""
import ast
import builtins as _builtins
import importlib
import operator as _op
import re

import numpy as np

_cap = {"installed": False, "records": []}


def install_capture():
    if _cap["installed"]:
        return
    import einx._src.tracer.compiler.python as cp
    orig = cp.compile

    def compile(object, return_code=False):
        r = orig(object, return_code=True)
        fn, code = r
        _cap["records"].append({"graph": object, "function": fn, "code": code})
        return r if return_code else fn
    cp.compile = compile
    _cap["orig"] = orig
    _cap["installed"] = True


def drain():
    out = list(_cap["records"])
    del _cap["records"][:]
    return out


# ---------------------------------------------------------------------------
# direct evaluation

_OPS = {"+": _op.add, "*": _op.mul, "<": _op.lt, "<=": _op.le, ">": _op.gt, ">=": _op.ge, "==": _op.eq, "!=": _op.ne, "-": _op.sub}


class Evaluator:
    def __init__(self, env=None):
        self.memo = {}          # id(origin) -> value  /  id(tracer) -> value for inputs
        self.effects = []
        self.env = dict(env or {})

    def bind(self, tracer_obj, value):
        import einx._src.util.pytree as pytree
        if isinstance(tracer_obj, (list, tuple)):
            for t, v in zip(tracer_obj, value):
                self.bind(t, v)
        else:
            self.env[id(tracer_obj)] = value

    def value(self, x):
        import einx._src.tracer as tracer
        P = tracer.signature.python
        if isinstance(x, tracer.Graph):
            return self.function_of(x)
        if isinstance(x, tracer.Tracer):
            if id(x) in self.env:
                return self.env[id(x)]
            if x.origin is None:
                raise KeyError("unbound graph input")
            out = self.origin_value(x.origin)
            return self.select(x.origin, out, x)
        if isinstance(x, list):
            return [self.value(i) for i in x]
        if isinstance(x, tuple):
            return tuple(self.value(i) for i in x)
        if isinstance(x, dict):
            return {self.value(k): self.value(v) for k, v in x.items()}
        if isinstance(x, slice):
            return slice(self.value(x.start), self.value(x.stop), self.value(x.step))
        return x

    def select(self, origin, out, tracer_obj):
        """pick the component of a pytree-valued origin output that corresponds to this tracer"""
        import einx._src.util.pytree as pytree
        flat_t = list(pytree.flatten(origin.output))
        if len(flat_t) == 1 and not isinstance(origin.output, (list, tuple, dict)):
            return out
        flat_v = list(pytree.flatten(out)) if isinstance(origin.output, (list, tuple, dict)) else [out]
        for t, v in zip(flat_t, flat_v):
            if t is tracer_obj:
                return v
        return out

    def origin_value(self, o):
        if id(o) in self.memo:
            return self.memo[id(o)]
        import einx._src.tracer as tracer
        P = tracer.signature.python
        if isinstance(o, P.Call):
            for d in o.additional_dependencies:
                self.value(d)
            fn = self.value(o.function)
            args = [self.value(a) for a in o.args]
            kw = {k: self.value(v) for k, v in o.kwargs.items()}
            self.effects.append(("call", getattr(fn, "__name__", str(fn))[:30]))
            r = fn(*args, **kw)
        elif isinstance(o, P.CallInplace):
            for d in o.additional_dependencies:
                self.value(d)
            xs = self.value(o.xs)
            fn = self.value(o.function)
            args = [self.value(a) for a in o.args]
            kw = {k: self.value(v) for k, v in o.kwargs.items()}
            self.effects.append(("inplace", getattr(fn, "__name__", str(fn))[:30]))
            fn(*args, **kw)
            r = xs
        elif isinstance(o, P.GetAttr):
            r = getattr(self.value(o.obj), o.key)
        elif isinstance(o, P.GetItem):
            r = self.value(o.obj)[self.value(o.key)]
        elif isinstance(o, P.UpdateItem):
            obj, key, val = self.value(o.obj), self.value(o.key), self.value(o.value)
            self.effects.append(("update", o.op))
            if o.op == "=":
                obj[key] = val
            elif o.op == "+=":
                obj[key] += val
            else:
                obj[key] -= val
            r = obj
        elif isinstance(o, P.Import):
            if o.from_ is not None:
                r = getattr(importlib.import_module(o.from_), o.import_)
            else:
                r = importlib.import_module(o.import_)
        elif isinstance(o, P.OperatorApplication):
            vals = [self.value(v) for v in o.operands]
            r = vals[0]
            for v in vals[1:]:
                r = _OPS[o.operator](r, v)
        elif isinstance(o, P.Builtin):
            r = getattr(_builtins, o.name)
        elif isinstance(o, P.Assert):
            cond = self.value(o.condition)
            self.effects.append(("assert", bool(cond)))
            assert cond, o.message
            r = self.value(o.xs)
        elif isinstance(o, P.Constant):
            r = o.value
        elif isinstance(o, tracer.Cast):
            r = self.value(o.input)
        else:
            raise NotImplementedError(type(o).__name__)
        self.memo[id(o)] = r
        return r

    def _preevaluate_closure(self, graph):
        """values used inside a nested graph that do not depend on its parameters belong to the enclosing scope:
        evaluate them there (once), before the function object exists"""
        import einx._src.tracer as tracer
        inner = {id(t) for t in graph.inputs}
        dep = {}

        def depends(x):
            if isinstance(x, tracer.Graph):
                return False
            if isinstance(x, tracer.Tracer):
                if id(x) in inner:
                    return True
                if id(x) in dep:
                    return dep[id(x)]
                dep[id(x)] = False
                r = x.origin is not None and any(depends(i) for i in x.origin.inputs)
                dep[id(x)] = r
                return r
            if isinstance(x, (list, tuple)):
                return any(depends(i) for i in x)
            if isinstance(x, dict):
                return any(depends(i) for i in list(x.keys()) + list(x.values()))
            return False

        def walk(x):
            if isinstance(x, tracer.Tracer):
                if not depends(x):
                    if x.origin is not None or id(x) in self.env:
                        self.value(x)
                    return
                if x.origin is not None:
                    for i in x.origin.inputs:
                        walk(i)
            elif isinstance(x, (list, tuple)):
                for i in x:
                    walk(i)
            elif isinstance(x, dict):
                for i in list(x.keys()) + list(x.values()):
                    walk(i)
        walk(graph.output)

    def function_of(self, graph):
        outer = self
        self._preevaluate_closure(graph)

        def fn(*args, **kwargs):
            ev = Evaluator(outer.env)
            ev.memo = dict(outer.memo)        # values of the enclosing graph are visible (closure), computed once
            for t, v in zip(graph.inputs, list(args) + list(kwargs.values())):
                ev.bind(t, v)
            r = ev.value(graph.output)
            outer.effects.extend(ev.effects)
            return r
        return fn


def evaluate(graph, args):
    ev = Evaluator()
    for t, v in zip(graph.inputs, args):
        ev.bind(t, v)
    return ev.value(graph.output), ev.effects


# ---------------------------------------------------------------------------
# terms for Codegen.tla

def T(t, s="", ch=()):
    ch = list(ch)
    if t == "item" and len(ch) == 2 and ch[1]["t"] == "tuple" and len(ch[1]["ch"]) == 1:
        ch[1] = ch[1]["ch"][0]          # x[(k,)] is printed, and means, x[k]
    return {"t": t, "s": str(s), "ch": ch}


def lit(v):
    if isinstance(v, (list, tuple)):
        return T("tuple" if isinstance(v, tuple) else "list", "", [lit(x) for x in v])
    if isinstance(v, dict):
        return T("dict", "", [T("kv", str(k), [lit(x)]) for k, x in v.items()])
    if isinstance(v, slice):
        return T("slice", "", [lit(v.start), lit(v.stop), lit(v.step)])
    if isinstance(v, (bool, np.bool_)):
        return T("lit", repr(bool(v)))
    if isinstance(v, (int, np.integer)):
        return T("lit", repr(int(v)))
    if isinstance(v, (float, np.floating)):
        return T("lit", repr(float(v)))
    return T("lit", repr(v))


class Termer:
    def __init__(self, graph):
        import einx._src.tracer as tracer
        self.tracer = tracer
        self.graph = graph
        self.inputs = {id(t): i for i, t in enumerate(graph.inputs)}
        self.memo = {}
        self.asserts = []
        self.effects = 0
        self.consts = {}
        self.unsupported = None

    def term(self, x):
        tracer = self.tracer
        P = tracer.signature.python
        if isinstance(x, tracer.Graph):
            self.unsupported = "nested graph"
            return T("graph")
        if isinstance(x, tracer.Tracer):
            if id(x) in self.inputs:
                return T("in", self.inputs[id(x)])
            if x.origin is None:
                self.unsupported = "foreign input"
                return T("in", "?")
            return self.origin_term(x.origin, x)
        if isinstance(x, (list, tuple)):
            return T("tuple" if isinstance(x, tuple) else "list", "", [self.term(i) for i in x])
        if isinstance(x, dict):
            return T("dict", "", [T("kv", str(k), [self.term(v)]) for k, v in x.items()])
        if isinstance(x, slice):
            return T("slice", "", [self.term(x.start), self.term(x.stop), self.term(x.step)])
        return lit(x)

    def origin_term(self, o, x):
        P = self.tracer.signature.python
        key = (id(o), id(x)) if isinstance(o, (P.Assert,)) or isinstance(o, self.tracer.Cast) else id(o)
        if key in self.memo:
            return self.memo[key]
        if isinstance(o, P.Call):
            self.effects += 1
            r = T("call", "", [self.term(o.function), T("args", "", [self.term(a) for a in o.args]),
                               T("kwargs", "", [T("kv", k, [self.term(v)]) for k, v in o.kwargs.items()])])
        elif isinstance(o, P.CallInplace):
            self.effects += 1
            r = T("inplace", "", [self.term(o.xs), self.term(o.function), T("args", "", [self.term(a) for a in o.args]),
                                  T("kwargs", "", [T("kv", k, [self.term(v)]) for k, v in o.kwargs.items()])])
        elif isinstance(o, P.GetAttr):
            r = T("attr", o.key, [self.term(o.obj)])
        elif isinstance(o, P.GetItem):
            r = T("item", "", [self.term(o.obj), self.term(o.key)])
        elif isinstance(o, P.UpdateItem):
            self.effects += 1
            r = T("update", o.op, [self.term(o.obj), self.term(o.key), self.term(o.value)])
        elif isinstance(o, P.Import):
            r = T("import", (o.from_ + ":" if o.from_ else "") + o.import_)
        elif isinstance(o, P.OperatorApplication):
            r = T("op", o.operator, [self.term(v) for v in o.operands])
        elif isinstance(o, P.Builtin):
            r = T("builtin", o.name)
        elif isinstance(o, P.Assert):
            cond = self.term(o.condition)
            if cond not in self.asserts:
                self.asserts.append(cond)
            # transparent: the asserted value is the value
            import einx._src.util.pytree as pytree
            flat_t = list(pytree.flatten(o.output))
            flat_x = list(pytree.flatten(o.xs))
            r = None
            for t, v in zip(flat_t, flat_x):
                if t is x:
                    r = self.term(v)
            if r is None:
                r = self.term(o.xs)
        elif isinstance(o, P.Constant):
            if id(o) not in self.consts:
                self.consts[id(o)] = len(self.consts) + 1
            r = T("const", re.sub(r"0x[0-9a-fA-F]+", "0x", str(o.value).replace("\n", " "))[:60])
        elif isinstance(o, self.tracer.Cast):
            import einx._src.util.pytree as pytree
            flat_t = list(pytree.flatten(o.output))
            flat_x = list(pytree.flatten(o.input))
            r = None
            if len(flat_t) == len(flat_x):
                for t, v in zip(flat_t, flat_x):
                    if t is x:
                        r = self.term(v)
            if r is None and isinstance(o.output, (list, tuple)) and not isinstance(o.input, (list, tuple, dict)):
                # a single value (e.g. the list returned by np.split) is given the type "sequence of tensors":
                # element i is input[i]
                for idx, t in enumerate(o.output):
                    if t is x:
                        r = T("item", "", [self.term(o.input), lit(idx)])
            if r is None:
                r = self.term(o.input)
        else:
            self.unsupported = type(o).__name__
            r = T("unknown", type(o).__name__)
        self.memo[key] = r
        return r


def graph_record(graph):
    tm = Termer(graph)
    out = tm.term(graph.output)
    return {"out": out, "asserts": tm.asserts, "effects": tm.effects, "nin": len(graph.inputs)}, tm.unsupported


def expr_term(e, consts):
    if isinstance(e, ast.Name):
        return T("name", e.id)
    if isinstance(e, ast.Constant):
        return lit(e.value)
    if isinstance(e, ast.Tuple):
        return T("tuple", "", [expr_term(x, consts) for x in e.elts])
    if isinstance(e, ast.List):
        return T("list", "", [expr_term(x, consts) for x in e.elts])
    if isinstance(e, ast.Dict):
        return T("dict", "", [T("kv", k.value if isinstance(k, ast.Constant) else "?", [expr_term(v, consts)]) for k, v in zip(e.keys, e.values)])
    if isinstance(e, ast.Attribute):
        return T("attr", e.attr, [expr_term(e.value, consts)])
    if isinstance(e, ast.Subscript):
        return T("item", "", [expr_term(e.value, consts), expr_term(e.slice, consts)])
    if isinstance(e, ast.Slice):
        n = ast.Constant(None)
        return T("slice", "", [expr_term(e.lower or n, consts), expr_term(e.upper or n, consts), expr_term(e.step or n, consts)])
    if isinstance(e, ast.Call):
        return T("call", "", [expr_term(e.func, consts), T("args", "", [expr_term(a, consts) for a in e.args]),
                              T("kwargs", "", [T("kv", k.arg, [expr_term(k.value, consts)]) for k in e.keywords])])
    if isinstance(e, ast.Compare) and len(e.ops) == 1:
        sym = {ast.Eq: "==", ast.NotEq: "!=", ast.Lt: "<", ast.LtE: "<=", ast.Gt: ">", ast.GtE: ">="}[type(e.ops[0])]
        return T("op", sym, [expr_term(e.left, consts), expr_term(e.comparators[0], consts)])
    if isinstance(e, ast.BinOp):
        sym = {ast.Add: "+", ast.Mult: "*", ast.Sub: "-"}.get(type(e.op), "?")
        return T("op", sym, [expr_term(e.left, consts), expr_term(e.right, consts)])
    if isinstance(e, ast.UnaryOp) and isinstance(e.op, ast.USub) and isinstance(e.operand, ast.Constant):
        return lit(-e.operand.value)
    return T("unknown", type(e).__name__)


def program_record(code):
    """-> {"consts": {name: header text}, "params": [...], "stmts": [{k, target, e}], "ret": term} (outermost def only)"""
    tree = ast.parse(code)
    consts = {}
    for line in code.splitlines():
        m = re.match(r"# Constant (const\d+): (.*)$", line)
        if m:
            consts[m.group(1)] = re.sub(r"0x[0-9a-fA-F]+", "0x", m.group(2))[:60]
    stmts = []
    nested = False
    for s in tree.body:
        if isinstance(s, ast.Import):
            for a in s.names:
                stmts.append({"k": "import", "target": a.asname or a.name, "e": T("import", a.name)})
        elif isinstance(s, ast.ImportFrom):
            for a in s.names:
                stmts.append({"k": "import", "target": a.asname or a.name, "e": T("import", s.module + ":" + a.name)})
    fdef = [n for n in tree.body if isinstance(n, ast.FunctionDef)][-1]
    params = [a.arg for a in fdef.args.args]
    ret = T("lit", "None")
    # statements at module level (values that do not depend on the inputs) run before the function body
    toplevel = [n for n in tree.body if not isinstance(n, (ast.Import, ast.ImportFrom)) and n is not fdef]
    if any(not isinstance(n, (ast.Assign, ast.Expr)) for n in toplevel):
        nested = True
        toplevel = []
    for s in toplevel + list(fdef.body):
        if isinstance(s, ast.Assign):
            t = s.targets[0]
            if isinstance(t, ast.Name):
                stmts.append({"k": "assign", "target": t.id, "e": expr_term(s.value, consts)})
            elif isinstance(t, ast.Subscript):
                stmts.append({"k": "update", "target": t.value.id if isinstance(t.value, ast.Name) else "?", "e": T("update", "=", [expr_term(t.value, consts), expr_term(t.slice, consts), expr_term(s.value, consts)])})
            else:
                nested = True
        elif isinstance(s, ast.AugAssign) and isinstance(s.target, ast.Subscript):
            op = "+=" if isinstance(s.op, ast.Add) else "-="
            stmts.append({"k": "update", "target": s.target.value.id if isinstance(s.target.value, ast.Name) else "?",
                          "e": T("update", op, [expr_term(s.target.value, consts), expr_term(s.target.slice, consts), expr_term(s.value, consts)])})
        elif isinstance(s, ast.Expr):
            stmts.append({"k": "expr", "target": "", "e": expr_term(s.value, consts)})
        elif isinstance(s, ast.Assert):
            stmts.append({"k": "assert", "target": "", "e": expr_term(s.test, consts)})
        elif isinstance(s, ast.Return):
            ret = expr_term(s.value, consts) if s.value is not None else T("lit", "None")
        else:
            nested = True
    return {"consts": [[k, v] for k, v in sorted(consts.items())], "params": params, "stmts": stmts, "ret": ret}, nested
