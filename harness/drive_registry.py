"""Replay (spec -> code) of Registry.tla behaviours against a real einx BackendRegistry.

A behaviour is {"cfg": {backend: {fw, prio, lazy, healthy}}, "hist": [step...]} as printed by
Sim_Registry.tla.  Every step is executed on a *fresh* `BackendRegistry()` populated with real
`Backend` / `InvalidBackend` objects, fake framework modules are inserted into `sys.modules`, and
after every step the projection of the real registry state is compared with the specification's
predicted post-state, and the result / exception class with the predicted result."""
import sys
import types

MODPREFIX = "einx_verif_fw_"


def modname(m):
    return "numpy" if m == "numpy" else MODPREFIX + m


class _FwTensor:
    pass


_tensor_classes = {}


def tensor_class(fw):
    if fw not in _tensor_classes:
        _tensor_classes[fw] = type("Tensor_" + fw, (_FwTensor,), {})
    return _tensor_classes[fw]


def make_tensor(t):
    import numpy as np
    if t == "nd":
        return np.zeros((2,))
    if t == "sc":
        return 1.5
    assert t.startswith("t_")
    return tensor_class(t[2:])()


class Replayer:
    def __init__(self, cfg):
        import einx._src.frontend.backend as B
        self.B = B
        self.cfg = cfg
        self.reg = B.BackendRegistry()
        self.objs = {}
        self.fake_modules = []

    def close(self):
        for m in self.fake_modules:
            sys.modules.pop(m, None)

    def _make_backend(self, name):
        c = self.cfg[name]
        import numpy as np
        fw = c["fw"]
        if fw == "numpy":
            sup = lambda t: isinstance(t, np.ndarray)
        else:
            cls = tensor_class(fw)
            sup = lambda t, cls=cls: isinstance(t, cls)
        return self.B.Backend(ops={}, name=name, priority=c["prio"], optimizations=[], compiler=None,
                              is_supported_tensor=sup, get_shape=lambda t: ())

    def _factory(self, name):
        c = self.cfg[name]

        def factory():
            if not c["healthy"]:
                raise RuntimeError("factory of %s fails" % name)
            return self._make_backend(name)
        return factory

    def _obj(self, name):
        # the object currently registered under this name
        return self.reg.state.name_to_backend[name]

    def project(self):
        st = self.reg.state
        mods = {modname(m): m for m in set(c["fw"] for c in self.cfg.values()) | {"numpy", "F", "G"}}
        memo = []
        for k, v in st.tensortypes_to_backend.items():
            tt = []
            for t in k:
                import numpy as np
                if t is np.ndarray:
                    tt.append("nd")
                elif t is float:
                    tt.append("sc")
                else:
                    tt.append("t_" + t.__name__[len("Tensor_"):])
            memo.append([tt, v.name])
        return {
            "backends": [b.name for b in st.backends],
            "lazy": {mods[m]: [n for n, _ in fs] for m, fs in st.uninitialized_backends.items() if m in mods},
            "seen": sorted(mods[m] for m in st.seen_module_names if m in mods),
            "memo": sorted(memo),
            "stack": [b.name for b in st.use_stack],
            "imported": [mods[m] for m in sys.modules if m in mods],
        }

    def step(self, s):
        """returns observed result as {"k":..., "v":...}"""
        a, x, tt = s["a"], s["x"], s["tt"]
        B = self.B
        from einx._src.frontend.errors import ImportBackendError, BackendResolutionError
        try:
            if a == "Register":
                c = self.cfg[x]
                if c["lazy"]:
                    self.reg.register_on_import(modname(c["fw"]), x, self._factory(x))
                else:
                    if c["healthy"]:
                        self.reg.register(self._make_backend(x))
                    else:
                        self.reg.register(B.InvalidBackend(x, "eagerly registered invalid backend"))
                return {"k": "none", "v": "nil"}
            if a == "StartUse":
                return {"k": "none", "v": "nil"}
            if a == "Import":
                m = modname(x)
                assert m not in sys.modules
                sys.modules[m] = types.ModuleType(m)
                self.fake_modules.append(m)
                return {"k": "none", "v": "nil"}
            if a in ("Get", "GetName", "GetObj"):
                if a == "Get":
                    arg = None
                elif a == "GetName":
                    arg = x
                else:
                    arg = self._obj(x)
                tensors = [make_tensor(t) for t in tt]
                b = self.reg.get(arg, tensors)
                b.raise_on_import_failure()  # as frontend/api.py does
                return {"k": "ok", "v": b.name}
            if a == "RegGetByName":
                b = self.reg.get_by_name(x)
                return {"k": "ok", "v": b.name}
            if a == "RegGetByTensors":
                bs = self.reg.get_by_tensors([make_tensor(t) for t in tt])
                return {"k": "set", "v": sorted(b.name for b in bs)}
            if a == "Enter":
                self.reg.enter(self._obj(x))
                return {"k": "none", "v": "nil"}
            if a == "Exit":
                self.reg.exit(self._obj(x))
                return {"k": "none", "v": "nil"}
            raise AssertionError("unknown action " + a)
        except (ValueError, ImportBackendError, BackendResolutionError) as e:
            return {"k": "err", "v": type(e).__name__}
        except Exception as e:  # internal error classes are results too (and never predicted)
            return {"k": "err", "v": "INTERNAL:" + type(e).__name__}


def norm_post(p):
    return {
        "backends": list(p["backends"]),
        "lazy": {m: list(v) for m, v in p["lazy"].items() if len(v) > 0},
        "seen": sorted(p["seen"]),
        "memo": sorted([list(e[0]), e[1]] for e in p["memo"]),
        "stack": list(p["stack"]),
        "imported": list(p["imported"]),
    }


def norm_res(r):
    if r["k"] == "set":
        return {"k": "set", "v": sorted(r["v"])}
    return {"k": r["k"], "v": r["v"]}


OBSERVABLE = ("stack",)      # what the property talks about besides lookup results: the innermost active with-block


def replay_one(beh):
    """returns None if conformant, else dict describing the first divergence.  Lookup results / raised classes and the
    with-stack are what C11 is about: a divergence there is a violation ("result", "state").  The rest of the registry
    state (memo, seen modules, lazily run factories, initialised backends) is internal: a divergence there alone is
    reported as "drift" (the specification no longer mirrors the implementation's bookkeeping) and the replay goes on
    comparing results."""
    rp = Replayer(beh["cfg"])
    drift = None
    try:
        for i, s in enumerate(beh["hist"]):
            got = rp.step(s)
            exp = norm_res(s["res"])
            if norm_res(got) != exp:
                return {"step": i, "action": s["a"], "x": s["x"], "tt": s["tt"], "kind": "result", "expected": exp, "observed": got}
            obs = rp.project()
            obs["lazy"] = {m: v for m, v in obs["lazy"].items() if v}
            ex = norm_post(s["post"])
            if obs != ex:
                if any(obs.get(k) != ex.get(k) for k in OBSERVABLE):
                    return {"step": i, "action": s["a"], "x": s["x"], "tt": s["tt"], "kind": "state", "expected": {k: ex.get(k) for k in OBSERVABLE}, "observed": {k: obs.get(k) for k in OBSERVABLE}}
                if drift is None:
                    drift = {"step": i, "action": s["a"], "x": s["x"], "tt": s["tt"], "kind": "drift", "expected": ex, "observed": obs}
        return drift
    finally:
        rp.close()


def replay_chunk(behs):
    sys.path.insert(0, __import__("os").environ.get("EINX_REPO", "/repo"))
    return [replay_one(b) for b in behs]
