import argparse
import importlib
import os
import sys
import traceback

import common


def main():
    ap = argparse.ArgumentParser()
    ap.add_argument("prop")
    ap.add_argument("--tier", default=os.environ.get("VERIF_TIER", "quick"), choices=["quick", "thorough"])
    ap.add_argument("--replay", default=None)
    a = ap.parse_args()
    try:
        mod = importlib.import_module(a.prop)
        if a.replay:
            rc = mod.replay(a.replay)
        else:
            rc = mod.run(a.tier)
    except common.MachineryError as e:
        print("MACHINERY-ERROR: %s" % e)
        sys.exit(2)
    except Exception:
        traceback.print_exc()
        print("MACHINERY-ERROR: unexpected exception in check %s" % a.prop)
        sys.exit(2)
    sys.exit(rc)


if __name__ == "__main__":
    main()
