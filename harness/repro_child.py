"""Child interpreter for C16: executes a list of calls three times each and prints one JSON line per execution."""
import hashlib
import json
import os
import sys
import warnings

import numpy as np

sys.path.insert(0, os.path.dirname(os.path.abspath(__file__)))
import drive_calls as DC  # noqa


def dig(x):
    a = np.asarray(x)
    if a.dtype.kind in "biu":
        return "%s%s:%s" % (a.dtype.kind, a.shape, hashlib.sha1(np.ascontiguousarray(a).tobytes()).hexdigest()[:12])
    return "%s%s:%s" % (a.dtype.kind, a.shape, hashlib.sha1(np.round(a.astype(np.float64), 7).tobytes()).hexdigest()[:12])


def force_uuid_stream(kind):
    """every identifier einx draws (uuid.uuid4) comes from an adversarial but collision-free stream: all values are pairwise
    distinct, yet share their leading 96 bits ("prefix") or their trailing 96 bits ("suffix")"""
    import uuid
    counter = [0]
    base = 0x1F2E3D4C5B6A79880716A5B4

    def uuid4():
        counter[0] += 1
        if kind == "prefix":
            return uuid.UUID(int=(base << 32) | counter[0])
        return uuid.UUID(int=(counter[0] << 96) | base)
    uuid.uuid4 = uuid4


def main():
    stream = os.environ.get("VERIF_UUID_STREAM", "")
    if stream:
        force_uuid_stream(stream)
    import einx
    items = json.load(open(sys.argv[1]))
    seed = int(os.environ.get("VERIF_OBS_ID", os.environ.get("PYTHONHASHSEED", "0")))
    out = []
    for it in items:
        op, cid = it["op"], it["cid"]
        rng = np.random.default_rng(it["seed"])
        if "raw" in it:
            desc, sizes, kw = it["raw"]["desc"], it["raw"].get("sizes", {}), {}
            ins = [rng.permutation(int(np.prod(sh)) if sh else 1).reshape(sh).astype(np.int64) for sh in it["raw"]["shapes"]]
        else:
            case = it["case"]
            ins = DC.probe_inputs(case, op, rng)
            if case["fam"] == "update_at" and it.get("dupcoords"):
                ins[1] = np.zeros_like(ins[1])
            kw = {"shift": 1} if op == "roll" else {}
            sizes = {n: int(v) for n, v in case["L"].items() if n in set(case["desc"])}
            desc = DC.desc_of(case)
            if it.get("implicit"):
                desc = ", ".join("".join(t) for t in case["intoks"])       # no '->': the output is chosen by the operation's rule
        for rep in (1, 2, 3):
            with warnings.catch_warnings():
                warnings.simplefilter("ignore")
                try:
                    r = getattr(einx, op)(desc, *[x.copy() for x in ins], backend=it["backend"], **sizes, **kw)
                    d = "(" + ",".join(dig(x) for x in (r if isinstance(r, (tuple, list)) else [r])) + ")"
                except Exception as e:
                    d = "exc:" + type(e).__name__
                g = []
                for _ in range(2):
                    try:
                        t = getattr(einx, op)(desc, *[x.copy() for x in ins], backend=it["backend"], graph=True, **sizes, **kw)
                        g.append(hashlib.sha1(t.encode()).hexdigest()[:12])
                    except Exception as e:
                        g.append("exc:" + type(e).__name__)
            out.append({"cid": cid, "seed": seed, "rep": rep, "digest": d, "gtext": g[0], "gtext2": g[1]})
    for o in out:
        print("OBS " + json.dumps(o))


if __name__ == "__main__":
    main()
