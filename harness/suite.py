"""Runs the repository's own pytest suite under the recorders (harness/suite_recorder.py) in the background of a check and
returns the recorded traces for validation by TLC."""
import json
import os
import subprocess

import common


def start():
    d = common.workdir("suite")
    env = dict(os.environ, VERIF_SUITE_OUT=d, PYTHONPATH=os.path.join(common.VERIF, "harness") + ":" + common.REPO, OMP_NUM_THREADS="1", OPENBLAS_NUM_THREADS="1")
    p = subprocess.Popen([common.PY, "-m", "pytest", "-p", "suite_recorder", "-q", "-p", "no:cacheprovider", "-x", "--timeout=900", os.path.join(common.REPO, "test")],
                         stdout=subprocess.PIPE, stderr=subprocess.STDOUT, text=True, env=env, cwd=common.REPO)
    return {"proc": p, "dir": d}


def finish(h, rep, which):
    """which: "opt" | "codegen".  Returns the list of records; the suite must pass (it is the repository's unedited suite)."""
    out, _ = h["proc"].communicate(timeout=3000)
    spath = os.path.join(h["dir"], "summary.json")
    if not os.path.exists(spath):
        raise common.MachineryError("the repository's test suite did not run under the recorders:\n" + out[-1500:])
    summ = json.load(open(spath))
    rep.extra["repository_test_suite_under_recorders"] = dict(summ, pytest_tail=out.strip().splitlines()[-1][:120] if out.strip() else "")
    recs = []
    with open(os.path.join(h["dir"], "opt.ndjson" if which == "opt" else "codegen.ndjson")) as f:
        for line in f:
            recs.append(json.loads(line))
    return recs
