"""Concurrency harness for C10.

* measure_shapes(): single-threaded probe that records, for every BackendRegistry method, the sequence of
  shared accesses (lock acquire/release, read/write of `registry.state`) it performs.  The result becomes the
  constant `Shape` of RegistryConc.tla, i.e. the model is generated from the code under test.
* run_schedule(): forces one TLC-generated schedule (sequence of <<thread, micro step>>) on real threads that
  call the real registry methods; threads park before every shared access and the scheduler releases exactly
  the thread the schedule names.  Results and final state are compared with the specification's prediction.
"""
import sys
import threading
import types

import drive_registry as D

STEP_TIMEOUT = 5.0


def _classes():
    import einx._src.frontend.backend as B
    return B


class Hooks:
    """Installed on a traced registry; `fn(kind)` is called BEFORE each shared access."""

    def __init__(self):
        self.fn = None

    def __call__(self, kind):
        if self.fn is not None:
            self.fn(kind)


class TracedLock:
    def __init__(self, hooks):
        self._l = threading.Lock()
        self._h = hooks

    def acquire(self, *a, **k):
        self._h("acq")
        return self._l.acquire(*a, **k)

    def release(self):
        self._h("rel")
        return self._l.release()

    def __enter__(self):
        self.acquire()
        return self

    def __exit__(self, *a):
        self.release()

    def locked(self):
        return self._l.locked()


def make_traced_registry():
    B = _classes()
    hooks = Hooks()

    class TracedRegistry(B.BackendRegistry):
        @property
        def state(self):
            hooks("read")
            return self.__dict__["_state"]

        @state.setter
        def state(self, v):
            hooks("write")
            self.__dict__["_state"] = v

    reg = TracedRegistry()
    reg.use_lock = TracedLock(hooks)
    return reg, hooks


class World(D.Replayer):
    """A real registry with synthetic backends (as in drive_registry) whose shared accesses are traced."""

    def __init__(self, cfg):
        import einx._src.frontend.backend as B
        self.B = B
        self.cfg = cfg
        self.reg, self.hooks = make_traced_registry()
        self.objs = {}
        self.fake_modules = []
        self.made = {}

    def _obj(self, name):
        return self.reg.__dict__["_state"].name_to_backend[name]

    def peek(self):
        st = self.reg.__dict__["_state"]
        saved = self.reg
        # project() reads self.reg.state -> bypass hooks
        self.hooks.fn, fn = None, self.hooks.fn
        try:
            return self.project()
        finally:
            self.hooks.fn = fn

    def do_op(self, op):
        """op: {"m":..., "arg": {"k","v"}, "tt": [...]} ; returns result record like the spec's"""
        m, arg, tt = op["m"], op["arg"], op["tt"]
        from einx._src.frontend.errors import ImportBackendError, BackendResolutionError
        try:
            if m == "get":
                a = None if arg["k"] == "none" else (arg["v"] if arg["k"] == "name" else self._obj(arg["v"]))
                b = self.reg.get(a, [D.make_tensor(t) for t in tt])
                return {"k": "ok", "v": b.name}
            if m == "get_by_name":
                return {"k": "ok", "v": self.reg.get_by_name(arg["v"]).name}
            if m == "enter":
                self.reg.enter(self._obj(arg["v"]))
                return {"k": "none", "v": "nil"}
            if m == "exit":
                self.reg.exit(self._obj(arg["v"]))
                return {"k": "none", "v": "nil"}
            if m == "register":
                self.step({"a": "Register", "x": arg["v"], "tt": []})
                return {"k": "none", "v": "nil"}
            raise AssertionError(m)
        except (ValueError, ImportBackendError, BackendResolutionError, AssertionError, IndexError) as e:
            return {"k": "err", "v": type(e).__name__}


def setup_world(cfg, decl, impdecl, imp):
    w = World(cfg)
    for m in impdecl:
        if m != "numpy":
            w.step({"a": "Import", "x": m, "tt": []})
    for b in decl:
        w.step({"a": "Register", "x": b, "tt": []})
    for m in imp:
        if m != "numpy" and m not in impdecl:
            w.step({"a": "Import", "x": m, "tt": []})
    return w


PROBE_CFG = {"numpy": {"fw": "numpy", "prio": -1, "lazy": True, "healthy": True},
             "x": {"fw": "F", "prio": 0, "lazy": True, "healthy": True},
             "y": {"fw": "numpy", "prio": -5, "lazy": False, "healthy": True}}


def measure_shapes():
    """method -> list of shared accesses of one successful call, measured on the code under test"""
    shapes = {}
    probes = [
        ("get", {"m": "get", "arg": {"k": "none", "v": "nil"}, "tt": ["nd"]}),
        ("get_by_name", {"m": "get_by_name", "arg": {"k": "name", "v": "numpy"}, "tt": []}),
        ("enter", {"m": "enter", "arg": {"k": "obj", "v": "numpy"}, "tt": []}),
        ("exit", {"m": "exit", "arg": {"k": "obj", "v": "numpy"}, "tt": []}),
        ("register", {"m": "register", "arg": {"k": "obj", "v": "y"}, "tt": []}),
    ]
    w = setup_world(PROBE_CFG, ["numpy", "x"], ["numpy"], ["numpy", "F"])
    try:
        for name, op in probes:
            log = []
            w.hooks.fn = log.append
            r = w.do_op(op)
            w.hooks.fn = None
            assert r["k"] != "err", (name, r)
            shapes[name] = log
        # register_on_import goes through another method; measure it too and require the same shape
        log = []
        w.hooks.fn = log.append
        w.reg.register_on_import("einx_verif_fw_nosuchmod", "lazyprobe", lambda: None)
        w.hooks.fn = None
        shapes["register_on_import"] = log
        # a second variant of get: lookup by object (no state change needed)
        log = []
        w.hooks.fn = log.append
        w.do_op({"m": "get", "arg": {"k": "name", "v": "numpy"}, "tt": []})
        w.hooks.fn = None
        shapes["get(name)"] = log
    finally:
        w.close()
    return shapes


class Scheduler:
    def __init__(self, world, progs):
        self.w = world
        self.progs = progs
        self.cv = threading.Condition()
        self.parked = {}      # thread -> kind it is parked before
        self.granted = None   # thread allowed to proceed
        self.finished = set()
        self.results = {t: [] for t in progs}
        self.errors = []
        self.tls = threading.local()
        world.hooks.fn = self.hook

    def hook(self, kind):
        t = getattr(self.tls, "name", None)
        if t is None:
            return
        with self.cv:
            self.parked[t] = kind
            if self.granted == t:
                self.granted = None
            self.cv.notify_all()
            ok = self.cv.wait_for(lambda: self.granted == t, timeout=60)
            if not ok:
                raise RuntimeError("scheduler abandoned thread %s" % t)
            del self.parked[t]

    def body(self, t):
        self.tls.name = t
        try:
            for op in self.progs[t]:
                r = self.w.do_op(op)
                self.results[t].append(r)
        except BaseException as e:  # noqa
            self.errors.append((t, repr(e)))
        finally:
            with self.cv:
                self.finished.add(t)
                if self.granted == t:
                    self.granted = None
                self.cv.notify_all()

    def run(self, sched):
        threads = {t: threading.Thread(target=self.body, args=(t,), daemon=True) for t in self.progs}
        for th in threads.values():
            th.start()
        # wait until every thread is parked at its first access (or finished)
        with self.cv:
            ok = self.cv.wait_for(lambda: all(t in self.parked or t in self.finished for t in self.progs), timeout=STEP_TIMEOUT)
        if not ok:
            return "threads did not reach their first access"
        for i, (t, kind) in enumerate(sched):
            with self.cv:
                if t in self.finished or t not in self.parked:
                    return "schedule step %d: thread %s is not parked (finished=%s)" % (i, t, t in self.finished)
                if self.parked[t] != kind:
                    return "schedule step %d: thread %s is about to do '%s' but the specification expects '%s'" % (i, t, self.parked[t], kind)
                self.granted = t
                self.cv.notify_all()
                ok = self.cv.wait_for(lambda: self.granted is None and (t in self.parked or t in self.finished), timeout=STEP_TIMEOUT)
                if not ok:
                    self.granted = None
                    return "schedule step %d: thread %s did not come back after '%s' (blocked on the lock?)" % (i, t, kind)
        with self.cv:
            ok = self.cv.wait_for(lambda: len(self.finished) == len(self.progs), timeout=STEP_TIMEOUT)
        if not ok:
            return "threads not finished at the end of the schedule: parked=%s" % (self.parked,)
        if self.errors:
            return "thread raised: %s" % (self.errors,)
        return None


def run_schedule(case, env):
    """case: {"prog": {t: [op...]}, "sched": [[t, kind]...], "results": {t: [...]}, "final": {...}}
    env: {"cfg","decl","impdecl","imp"}.  Returns None or a divergence description."""
    w = setup_world(env["cfg"], env["decl"], env["impdecl"], env["imp"])
    try:
        s = Scheduler(w, case["prog"])
        err = s.run([tuple(x) for x in case["sched"]])
        w.hooks.fn = None
        if err:
            return {"kind": "schedule", "detail": err}
        for t in case["prog"]:
            exp = [D.norm_res(r) for r in case["results"][t]]
            got = [D.norm_res(r) for r in s.results[t]]
            if exp != got:
                return {"kind": "results", "thread": t, "expected": exp, "observed": got}
        obs = w.peek()
        obs["lazy"] = {m: v for m, v in obs["lazy"].items() if v}
        obs.pop("imported")
        ex = D.norm_post(dict(case["final"], imported=[]))
        ex.pop("imported")
        # the memo is compared as a set
        if obs != ex:
            return {"kind": "final-state", "expected": ex, "observed": obs}
        return None
    finally:
        w.hooks.fn = None
        w.close()


def run_schedules_chunk(args):
    sys.path.insert(0, __import__("os").environ.get("EINX_REPO", "/repo"))
    env, cases = args[0]["env"], args
    return [run_schedule(c["case"], c["env"]) for c in cases]
