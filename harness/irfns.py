"""Elementary functions used by the synthetic IR graphs of C04 (importable by generated code: harness/ is on PYTHONPATH).
Every function logs its invocation; the in-place function really writes into its first argument."""
import numpy as np

LOG = []


def reset():
    del LOG[:]


def f(a, b):            # "call": function handed to the graph as a constant
    LOG.append("f")
    return a * 2 + b * 3 + 1


def g(a, b):            # "cali": function imported by the generated code
    LOG.append("g")
    return a * 7 - b + 3


def h(x, y):            # "inpl": updates x in place
    LOG.append("h")
    np.add(x, y * 5 + 2, out=x)


def z():               # "gen": a value that does not depend on the graph inputs
    LOG.append("z")
    return np.array([5, 6, 7, 8], dtype=np.int64)


def apply(fn, arg):     # "lam": applies a nested function
    LOG.append("apply")
    return fn(arg)
