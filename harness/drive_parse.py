"""Parser binding for C12 / C03: enumerate token sequences, run the real stage1.parse_op, serialise the outcome in
Parse.tla's record format."""
import itertools
import json
import re
import sys

LITS = ["(", ")", "[", "]", "...", "->", ",", "+", " "]


def alphabet(names, nums, junk):
    return list(names) + list(nums) + list(junk) + LITS


def well_lexed(toks, alnum, junk):
    for i in range(len(toks) - 1):
        a, b = toks[i], toks[i + 1]
        if a in alnum and b in alnum:
            return False
        if a in junk and b == "...":
            return False
        if a == "..." and b in junk:
            return False
    return True


def sequences(names, nums, junk, maxlen):
    alph = alphabet(names, nums, junk)
    alnum = set(names) | set(nums) | set(junk)
    junk = set(junk)
    out = [()]
    frontier = [()]
    for n in range(maxlen):
        nxt = []
        for s in frontier:
            for t in alph:
                if s and ((s[-1] in alnum and t in alnum) or (s[-1] in junk and t == "...") or (s[-1] == "..." and t in junk)):
                    continue
                nxt.append(s + (t,))
        out.extend(nxt)
        frontier = nxt
    return out


def tree_to_rec(x):
    from einx._src.namedtensor.stage1 import tree as T
    if isinstance(x, T.Axis):
        if x.name.startswith("unnamed."):
            name = "#"
        elif x.name == T.Ellipsis.anonymous_variable_name:
            name = "_anon"
        else:
            name = x.name
        return {"k": "axis", "name": name, "val": -1 if x.value is None else int(x.value)}
    if isinstance(x, T.List):
        return {"k": "list", "ch": [tree_to_rec(c) for c in x.children]}
    if isinstance(x, T.FlattenedAxis):
        return {"k": "flat", "in": tree_to_rec(x.inner)}
    if isinstance(x, T.Brackets):
        return {"k": "br", "in": tree_to_rec(x.inner)}
    if isinstance(x, T.Ellipsis):
        return {"k": "ell", "in": tree_to_rec(x.inner)}
    if isinstance(x, T.ConcatenatedAxis):
        return {"k": "cat", "ch": [tree_to_rec(c) for c in x.children]}
    if isinstance(x, T.Args):
        return {"k": "args", "ch": [tree_to_rec(c) for c in x.children]}
    if isinstance(x, T.Op):
        return {"k": "op", "ch": [tree_to_rec(c) for c in x.children]}
    raise TypeError(type(x))


def observe(text):
    """-> dict(ok, tree | cls, problems[])"""
    from einx._src.namedtensor import stage1
    import einx
    problems = []
    try:
        t = stage1.parse_op(text)
    except einx.errors.SyntaxError as e:
        msg = str(e)
        if text.strip() and text not in msg:
            problems.append("message does not quote the caller's string")
        pos = getattr(e, "pos", [])
        if any(p < 0 or p >= len(text) for p in pos):
            problems.append("caret position outside the string")
        return {"ok": False, "cls": "SyntaxError", "problems": problems}
    except RecursionError:
        return {"ok": False, "cls": "RecursionError", "problems": ["internal exception RecursionError"]}
    except Exception as e:  # any other class violates totality
        return {"ok": False, "cls": type(e).__name__, "problems": ["internal exception %s: %s" % (type(e).__name__, str(e)[:100])]}
    rec = tree_to_rec(t)
    # round trip on the real code
    try:
        s2 = str(t)
        t2 = stage1.parse_op(s2)
        if tree_to_rec(t2) != rec:
            problems.append("re-reading the printed form %r gives a different structure" % s2)
    except Exception as e:
        problems.append("printed form %r cannot be re-read: %s" % (str(t), type(e).__name__))
    return {"ok": True, "tree": rec, "problems": problems}


def observe_chunk(seqs):
    out = []
    for toks in seqs:
        text = "".join(toks)
        o = observe(text)
        o["toks"] = list(toks)
        out.append(o)
    return out


# the documented lexer (same algorithm as parse.py: first matching literal at each position)
_LEX_LITS = ["->", ",", "+", " ", "(", "[", ")", "]", "..."]
_NAME = re.compile(r"[a-zA-Z_][a-zA-Z0-9_]*")


def lex(text):
    toks = []
    start = 0
    pos = 0

    def flush(end):
        nonlocal start
        if start != end:
            toks.append(text[start:end])
            start = end
    while pos < len(text):
        for l in _LEX_LITS:
            if text.startswith(l, pos):
                flush(pos)
                flush(pos + len(l))
                pos += len(l)
                break
        else:
            pos += 1
    flush(pos)
    return toks
