"""Replay of IR.tla graphs (C04): a TLC-generated run of the tracer API is performed on the real tracer, compiled by the
real code generator, executed, and compared with the graph's MEANING as computed by the specification (terms), which is
interpreted here purely functionally (copies, never mutation)."""
import numpy as np

import irfns

N = 4   # length of the 1-D integer buffers


def build(gj):
    """gj: {"nodes": [{k,a,b,d}], "outs": [refs], "nin": n}  ->  tracer.Graph"""
    import einx._src.tracer as tracer
    P = tracer.signature.python
    nin = gj["nin"]
    vals = {r + 1: P.Value(None) for r in range(nin)}
    inputs = [vals[r + 1] for r in range(nin)]
    lazy = {}

    def const(name):
        if name not in lazy:
            lazy[name] = P.constant(getattr(irfns, name))
        return lazy[name]

    def module(name):
        if name not in lazy:
            lazy[name] = P.import_(name, as_={"irfns": "fx", "numpy": "np"}[name])
        return lazy[name]
    for i, n in enumerate(gj["nodes"], 1):
        k, a, b, d = n["k"], vals.get(n["a"]), vals.get(n["b"]), vals.get(n["d"])
        if k == "gen":
            v = P.call(const("z"), [])
        elif k == "cut":
            v = P.getitem(a, slice(0, None, -1))
        elif k == "call":
            v = P.call(const("f"), [a, b])
        elif k == "cali":
            v = P.call(P.getattr(module("irfns"), "g"), [a, b])
        elif k == "op":
            v = P.add(a, b)
        elif k == "lam":
            inner = P.function(lambda z, a=a: P.call(const("f"), [z, a]), args=[P.Value(None)])
            v = P.call(const("apply"), [inner, b])
        elif k == "dim":
            v = P.getitem(P.getattr(a, "shape"), 0)
        elif k == "view":
            v = P.getattr(a, "T")
        elif k == "rev":
            v = P.getitem(a, slice(None, None, -1))
        elif k == "cast":
            v = tracer.cast(a, lambda origin: P.Value(origin))
        elif k == "assert":
            v = P.assert_(a, P.call(P.builtins.isinstance, [a, P.getattr(module("numpy"), "ndarray")]), "not an array")
        elif k == "inpl":
            if d is not None:
                with tracer.depend_on(d):
                    v = P.call_inplace(a, const("h"), [a, b])
            else:
                v = P.call_inplace(a, const("h"), [a, b])
        elif k == "upd":
            v = P.additem(a, slice(0, N), b)
        elif k == "set":
            v = P.setitem(a, slice(0, N), b)
        else:
            raise ValueError(k)
        vals[nin + i] = v
    outs = [vals[r] for r in gj["outs"]]
    return tracer.Graph(inputs=inputs, output=tuple(outs) if len(outs) > 1 else outs[0], name="op")


def probe_inputs(nin, seed):
    rng = np.random.default_rng(seed)
    return [rng.integers(1, 1000, size=N).astype(np.int64) * (10 ** (3 * r) + 1) for r in range(nin)]


def _wrap(x, w):
    for k in w:
        x = x.T if k == "view" else (x[::-1] if k == "rev" else x[0::-1])
    return x


def interp(t, inputs):
    """value (a fresh array) of a specification term"""
    k = t["t"]
    ch = t["ch"]
    if k == "in":
        return inputs[int(t["w"][0]) - 1].copy()
    if k == "dim":
        return np.int64(N)
    if k == "gen":
        return np.array([5, 6, 7, 8], dtype=np.int64)
    if k == "view":
        return _wrap(interp(ch[0], inputs), t["w"]).copy()
    if k in ("call", "lam", "cali", "op"):
        a, b = interp(ch[0], inputs), interp(ch[1], inputs)
        if k == "call":
            return a * 2 + b * 3 + 1
        if k == "lam":
            return b * 2 + a * 3 + 1         # (lambda z: f(z, a))(b)
        if k == "cali":
            return a * 7 - b + 3
        return a + b
    if k in ("inpl", "upd", "set"):
        old, y = interp(ch[0], inputs), interp(ch[1], inputs)
        tgt = _wrap(old, t["w"])
        if k == "inpl":
            tgt += y * 5 + 2
        elif k == "upd":
            tgt[0:N] += y
        else:
            tgt[0:N] = y
        return old
    raise ValueError("term " + k)


def expected_effects(gj):
    c = {"f": 0, "g": 0, "h": 0, "apply": 0, "z": 0}
    c["z"] = sum(1 for n in gj["nodes"] if n["k"] == "gen")
    for n in gj["nodes"]:
        if n["k"] in ("call", "lam"):
            c["f"] += 1
        if n["k"] == "lam":
            c["apply"] += 1
        if n["k"] == "cali":
            c["g"] += 1
        if n["k"] == "inpl":
            c["h"] += 1
    return c


def describe(gj):
    nin = gj["nin"]

    def r(x):
        return "x%d" % x if x <= nin else "v%d" % (x - nin)
    parts = []
    for i, n in enumerate(gj["nodes"], 1):
        k = n["k"]
        if k == "gen":
            s = "z()"
        elif k in ("view", "rev", "cast", "assert", "dim", "cut"):
            s = {"view": "%s.T", "rev": "%s[::-1]", "cast": "cast(%s)", "assert": "assert_(%s)", "dim": "%s.shape[0]", "cut": "%s[0::-1]"}[k] % r(n["a"])
        elif k in ("upd", "set"):
            s = "%s[0:n] %s %s" % (r(n["a"]), "+=" if k == "upd" else "=", r(n["b"]))
        else:
            s = "%s(%s, %s)%s" % ({"call": "f", "cali": "fx.g", "op": "add", "lam": "lam", "inpl": "h!"}[k], r(n["a"]), r(n["b"]), (" after " + r(n["d"])) if n["d"] else "")
        parts.append("v%d=%s" % (i, s))
    return "; ".join(parts) + " -> (" + ", ".join(r(x) for x in gj["outs"]) + ")"


def run_graph(gj, seed=0):
    """-> (findings, record for Codegen.tla or None, code)"""
    import warnings
    import einx._src.tracer as tracer
    import drive_ir as IR
    findings = []
    graph = build(gj)
    IR.install_capture()
    IR.drain()
    irfns.reset()         # statements that do not depend on the inputs run once, when the module text is executed
    try:
        fn, code = tracer.compiler.python.compile(graph, return_code=True)
    except Exception as e:
        return [{"kind": "compile-fails", "detail": "%s: %s" % (type(e).__name__, str(e)[:300])}], None, ""
    recs = IR.drain()
    ins = probe_inputs(gj["nin"], seed)
    args = [x.copy() for x in ins]
    try:
        with warnings.catch_warnings():
            warnings.simplefilter("ignore")
            res = fn(*args)
        outcome = "ok"
    except Exception as e:
        res, outcome = None, "%s: %s" % (type(e).__name__, str(e)[:200])
    log = list(irfns.LOG)
    if outcome != "ok":
        findings.append({"kind": "generated-code-raises", "detail": outcome})
    else:
        res = list(res) if isinstance(res, tuple) else [res]
        exp = gj["expect"]
        want = [interp(t, ins) for t in exp["outs"]]
        if len(res) != len(want) or any(not (np.shape(a) == np.shape(b) and np.array_equal(a, b)) for a, b in zip(res, want)):
            findings.append({"kind": "value-differs-from-meaning", "detail": "generated code returns %s, the graph means %s" % ([np.asarray(a).tolist() for a in res], [np.asarray(b).tolist() for b in want])})
        wantin = [interp(t, ins) for t in exp["inputs"]]
        if any(not np.array_equal(a, b) for a, b in zip(args, wantin)):
            findings.append({"kind": "input-buffers-differ-from-meaning", "detail": "after the call the arguments hold %s, the graph means %s" % ([a.tolist() for a in args], [b.tolist() for b in wantin])})
        cnt = {k: log.count(k) for k in ("f", "g", "h", "apply", "z")}
        if cnt != expected_effects(gj):
            findings.append({"kind": "effect-count", "detail": "calls executed %s, nodes in the graph %s" % (cnt, expected_effects(gj))})
    return findings, (recs[-1] if recs else None), code, ins
