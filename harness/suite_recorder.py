"""pytest plugin: runs the repository's own test suite under the recorders of C04 / C05 and dumps what they saw.

    PYTHONPATH=/verif/harness:/repo VERIF_SUITE_OUT=<dir> python -m pytest -p suite_recorder -q <repo>/test

* every call of tracer.optimize (rule firings, passes, graph sizes)            -> opt.ndjson      (Trace_Optimize.tla)
* every compilation (graph unfolded into a term + the emitted program)        -> codegen.ndjson  (Codegen.tla)
The suite's assertions are untouched; the traces are validated afterwards by TLC, i.e. the executions the tests
already perform are checked against the specifications' invariants, not against the tests' own (weaker) assertions."""
import json
import os

import drive_ir as IR
import record_opt

_out = {"dir": os.environ.get("VERIF_SUITE_OUT", "."), "opt": None, "cg": None, "n": {"opt": 0, "cg": 0, "cg_skipped": 0, "tests": 0}}


def pytest_configure(config):
    os.makedirs(_out["dir"], exist_ok=True)
    record_opt.install()
    IR.install_capture()
    _out["opt"] = open(os.path.join(_out["dir"], "opt.ndjson"), "w")
    _out["cg"] = open(os.path.join(_out["dir"], "codegen.ndjson"), "w")


def _flush(nodeid):
    for r in record_opt.drain():
        r["meta"] = {"test": nodeid}
        _out["opt"].write(json.dumps(r) + "\n")
        _out["n"]["opt"] += 1
    for rec in IR.drain():
        fn = rec["function"]
        if not hasattr(fn, "__code__"):
            continue
        try:
            g, unsupported = IR.graph_record(rec["graph"])
            p, nested = IR.program_record(rec["code"])
        except Exception:
            unsupported, nested = "error", True
        if unsupported or nested:
            _out["n"]["cg_skipped"] += 1
            continue
        _out["cg"].write(json.dumps({"graph": g, "prog": p, "meta": {"call": "test " + nodeid, "code": rec["code"]}}) + "\n")
        _out["n"]["cg"] += 1


def pytest_runtest_teardown(item, nextitem):
    _out["n"]["tests"] += 1
    _flush(item.nodeid)


def pytest_sessionfinish(session, exitstatus):
    _flush("session")
    for k in ("opt", "cg"):
        _out[k].close()
    with open(os.path.join(_out["dir"], "summary.json"), "w") as f:
        json.dump(dict(_out["n"], exitstatus=int(exitstatus)), f)
