"""Replay of OptTerms.tla terms (C05): every term TLC built is constructed on the real tracer with the numpy signature,
optimised by the real optimiser with the numpy backend's rule list, compiled with and without optimisation, executed on
tensors with pairwise distinct values and compared with the term's MEANING computed by the specification (Sem)."""
import numpy as np


def used_inputs(t, acc=None):
    acc = set() if acc is None else acc
    if t["k"] == "in":
        acc.add(t["p"][0])
    for c in t["ch"]:
        used_inputs(c, acc)
    return acc


def build(term, inshapes):
    import einx._src.tracer as tracer
    npx = tracer.signature.numpy()
    used = sorted(used_inputs(term))
    ins = {i: tracer.signature.classical.Tensor(None, shape=tuple(inshapes[i - 1])) for i in used}
    memo = {}

    def go(t):
        key = repr(t)            # equal sub-terms are ONE traced value (shared sub-graph, consumed several times)
        if key in memo:
            return memo[key]
        k = t["k"]
        if k == "in":
            v = ins[t["p"][0]]
        elif k == "T":
            v = npx.transpose(go(t["ch"][0]), tuple(t["p"]))
        elif k == "R":
            v = npx.reshape(go(t["ch"][0]), tuple(t["p"]))
        elif k == "B":
            v = npx.broadcast_to(go(t["ch"][0]), tuple(t["p"]))
        elif k == "C":
            v = npx.concatenate([go(c) for c in t["ch"]], axis=t["p"][0])
        elif k == "sub":
            v = npx.subtract(go(t["ch"][0]), go(t["ch"][1]))
        else:
            raise ValueError(k)
        memo[key] = v
        return v
    out = go(term)
    return tracer.Graph(inputs=[ins[i] for i in used], output=out, name="op"), used


def probe(inshapes):
    return [(np.arange(int(np.prod(s)), dtype=np.int64) * 7 + 1) * (1000 ** (i)) + i for i, s in enumerate(inshapes)]


def interp_el(e, flat):
    if e["k"] == "el":
        return int(flat[e["i"] - 1][e["q"]])
    return interp_el(e["ch"][0], flat) - interp_el(e["ch"][1], flat)


def describe(t):
    k = t["k"]
    if k == "in":
        return "x%d" % t["p"][0]
    a = [describe(c) for c in t["ch"]]
    if k == "T":
        return "transpose(%s, %s)" % (a[0], tuple(t["p"]))
    if k == "R":
        return "reshape(%s, %s)" % (a[0], tuple(t["p"]))
    if k == "B":
        return "broadcast_to(%s, %s)" % (a[0], tuple(t["p"]))
    if k == "C":
        return "concatenate([%s], axis=%d)" % (", ".join(a), t["p"][0])
    return "subtract(%s, %s)" % (a[0], a[1])


def run_term(rec, inshapes):
    """-> (findings, info)"""
    import einx
    import einx._src.tracer as tracer
    term = rec["term"]
    findings = []
    g, used = build(term, inshapes)
    opts = einx.backend.get("numpy").optimizations
    f0, c0 = tracer.compiler.python.compile(g, return_code=True)
    try:
        g1 = tracer.optimize(g, optimizations=opts)
        f1, c1 = tracer.compiler.python.compile(g1, return_code=True)
    except Exception as e:
        return [{"kind": "optimise-or-compile-fails", "detail": "%s: %s" % (type(e).__name__, str(e)[:200])}], {"code_before": c0, "code_after": ""}
    # a second optimisation of the result must change nothing (fixed point reached)
    try:
        g2 = tracer.optimize(g1, optimizations=opts)
        _, c2 = tracer.compiler.python.compile(g2, return_code=True)
        if c2 != c1:
            findings.append({"kind": "not-a-fixed-point", "detail": "optimising the optimised graph changes the code again"})
    except Exception as e:
        findings.append({"kind": "reoptimise-fails", "detail": "%s: %s" % (type(e).__name__, str(e)[:200])})
    allins = probe(inshapes)
    flat = [a.reshape(-1) for a in allins]
    args = [allins[i - 1].reshape(inshapes[i - 1]) for i in used]
    want = np.array([interp_el(e, flat) for e in rec["sem"]], dtype=np.int64).reshape(tuple(rec["shape"]))
    for tag, f in (("unoptimised", f0), ("optimised", f1)):
        try:
            got = np.asarray(f(*[a.copy() for a in args]))
        except Exception as e:
            findings.append({"kind": tag + "-graph-raises", "detail": "%s: %s" % (type(e).__name__, str(e)[:200])})
            continue
        if got.shape != want.shape:
            findings.append({"kind": tag + "-graph-wrong-shape", "detail": "shape %s, the term means shape %s" % (got.shape, want.shape)})
        elif not np.array_equal(got, want):
            findings.append({"kind": tag + "-graph-wrong-value", "detail": "got %s, the term means %s" % (got.reshape(-1)[:8].tolist(), want.reshape(-1)[:8].tolist())})
    return findings, {"code_before": c0, "code_after": c1, "changed": c0 != c1}


def run_chunk(items):
    out = []
    for it in items:
        try:
            f, info = run_term(it["rec"], it["inshapes"])
        except Exception:
            import traceback
            f, info = [{"kind": "machinery", "detail": traceback.format_exc()[-800:]}], {}
        out.append({"findings": f, "info": info})
    return out
