"""Replay (spec -> code) of the call corpus: every case exported by Cases.tla is executed with the real einx on
probe tensors with pairwise distinct values and compared, element by element, with loopref.reference (the
loop-notation denotation computed by TLC)."""
import json
import sys
import warnings

import numpy as np

import loopref

BACKENDS = ["numpy", "numpy.numpylike", "numpy.einsum"]

FAMILY_OPS = {
    "id": ["id"],
    "elementwise": ["add", "subtract", "multiply", "true_divide", "floor_divide", "divide", "logical_and", "logical_or",
                    "maximum", "minimum", "less", "less_equal", "greater", "greater_equal", "equal", "not_equal", "logaddexp"],
    "reduce": ["sum", "mean", "var", "std", "prod", "count_nonzero", "any", "all", "max", "min", "logsumexp"],
    "dot": ["dot"],
    "preserve": ["flip", "roll", "sort", "argsort", "softmax", "log_softmax"],
    "argfind": ["argmax", "argmin"],
    "get_at": ["get_at"],
    "update_at": ["set_at", "add_at", "subtract_at"],
}


def desc_of(case):
    return "".join(case["desc"])


def features(case):
    """structural features of a case, used in violation signatures and for the non-triviality count"""
    f = set()
    toks = case["desc"]
    for side, tl in (("in", case["intoks"]), ("out", case["outtoks"])):
        for t in tl:
            names = [x for x in t if x.isalpha()]
            if len(names) != len(set(names)):
                f.add("repeated_name_" + side)
            if "(" in t:
                f.add("paren_" + side)
            if "+" in t:
                f.add("concat_" + side)
            if "1" in t:
                f.add("literal1_" + side)
    L = case["L"]
    used = {x for x in toks if x.isalpha()}
    lens = [L[n] for n in used]
    if any(v == 1 for v in lens):
        f.add("unit_axis")
    if len(lens) != len(set(lens)):
        f.add("equal_lengths")
    return sorted(f)


def probe_inputs(case, op, rng):
    fam = case["fam"]
    ins = []
    for k, t in enumerate(case["ins"]):
        shape = tuple(t["shape"])
        n = int(np.prod(shape)) if shape else 1
        if fam in ("get_at", "update_at") and 0 < k < (len(case["ins"]) - (1 if fam == "update_at" else 0)):
            # coordinate tensor: values within the target's bracket extents, component-wise
            br = case["ins"][0]["brshape"]
            arr = np.zeros(n, dtype=np.int64)
            c0 = sum(len(case["groups"][0]["ins"][j]) for j in range(1, k))     # components held by earlier coordinate tensors
            for g in case["groups"]:
                for c, p in enumerate(g["ins"][k]):
                    arr[p] = rng.integers(0, br[c0 + c])
            ins.append(arr.reshape(shape))
            continue
        if op in ("logical_and", "logical_or", "any", "all"):
            arr = rng.integers(0, 2, size=n).astype(bool)
        elif op in ("count_nonzero",):
            arr = rng.integers(0, 2, size=n).astype(np.float64)
        elif fam in ("id", "get_at", "update_at") or op in ("flip", "roll", "sort", "argsort", "argmax", "argmin", "max", "min", "maximum", "minimum",
                                                      "less", "less_equal", "greater", "greater_equal", "equal", "not_equal"):
            # pairwise distinct integers, different per input
            arr = (rng.permutation(n) * 7 + 3 + 1000 * k).astype(np.int64)
        else:
            arr = (rng.permutation(n) * 0.37 + 0.5 + 0.113 * k).astype(np.float64)
        ins.append(arr.reshape(shape))
    return ins


def call_einx(case, op, backend, ins, kw):
    import einx
    sizes = {n: int(v) for n, v in case["L"].items() if n in set(case["desc"])}
    with warnings.catch_warnings():
        warnings.simplefilter("ignore")
        return getattr(einx, op)(desc_of(case), *ins, backend=backend, **sizes, **kw)


def run_case(case, ops=None, backends=None, seed=0):
    """returns list of findings: each {op, backend, kind, detail}"""
    import einx
    out = []
    fam = case["fam"]
    rng = np.random.default_rng(seed)
    stats = {"calls": 0, "notsupported": 0}
    for op in (ops or FAMILY_OPS[fam]):
        if op in ("sort", "argsort") and len(case["ins"][0]["brshape"]) != 1:
            continue
        kw = {}
        if op == "roll":
            kw = {"shift": 1}
        ins = probe_inputs(case, op, rng)
        try:
            if fam == "update_at":
                (exp,), winners = loopref.reference(case, op, ins, kw)
            else:
                exp, _ = loopref.reference(case, op, ins, kw)
                winners = None
        except Exception as e:
            out.append({"op": op, "backend": "-", "kind": "machinery", "detail": "loopref failed: %r" % (e,)})
            continue
        for backend in (backends or BACKENDS):
            stats["calls"] += 1
            ins2 = [x.copy() for x in ins]
            try:
                got = call_einx(case, op, backend, ins2, kw)
            except einx.errors.OperationNotSupportedError:
                stats["notsupported"] += 1
                continue
            except Exception as e:
                out.append({"op": op, "backend": backend, "kind": "exception:" + type(e).__name__, "detail": str(e)[:300]})
                continue
            gots = list(got) if isinstance(got, (tuple, list)) else [got]
            exps = exp if isinstance(exp, list) else [exp]
            if len(gots) != len(exps):
                out.append({"op": op, "backend": backend, "kind": "wrong_arity", "detail": "%d outputs, expected %d" % (len(gots), len(exps))})
                continue
            for o, (g, e) in enumerate(zip(gots, exps)):
                g = np.asarray(g)
                if tuple(g.shape) != tuple(e.shape):
                    out.append({"op": op, "backend": backend, "kind": "wrong_shape", "detail": "output %d has shape %s, expected %s" % (o, g.shape, e.shape)})
                    break
                if fam == "update_at" and op == "set_at":
                    ok = True
                    ef = e.reshape(-1).copy()
                    gf = g.reshape(-1)
                    for cell, vals in winners.items():
                        if not any(gf[cell] == v for v in vals):
                            ok = False
                        ef[cell] = gf[cell]
                    ok = ok and np.array_equal(ef, gf)
                elif e.dtype.kind in "biu" or fam in ("id", "get_at"):
                    ok = np.array_equal(g, e)
                else:
                    ok = np.allclose(g, e, rtol=1e-6, atol=1e-9, equal_nan=True)
                if not ok:
                    bad = int(np.sum(~np.isclose(np.asarray(g, dtype=float), np.asarray(e, dtype=float)))) if g.dtype != object else -1
                    out.append({"op": op, "backend": backend, "kind": "wrong_value",
                                "detail": "output %d differs from the loop-notation value at %d of %d positions; got %s expected %s" % (
                                    o, bad, e.size, np.asarray(g).reshape(-1)[:8].tolist(), e.reshape(-1)[:8].tolist())})
                    break
    return out, stats


def run_chunk(cases):
    res = []
    for c in cases:
        try:
            f, st = run_case(c["case"], ops=c.get("ops"), backends=c.get("backends"), seed=c.get("seed", 0))
        except Exception as e:  # noqa
            import traceback
            f, st = [{"op": "-", "backend": "-", "kind": "machinery", "detail": traceback.format_exc()[-800:]}], {"calls": 0, "notsupported": 0}
        res.append({"findings": f, "stats": st})
    return res
