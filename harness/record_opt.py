"""Recorder for the optimiser (C05): logs every pattern firing with its arguments, the number of passes and the graph
size before each pass.  Installed from outside: the Optimizer class and tracer.optimize are module attributes."""
import numpy as np


class Session:
    def __init__(self):
        self.fires = []
        self.passes = 0
        self.sizes = []


_state = {"installed": False, "sessions": [], "current": None}


def graph_size(x):
    import einx._src.tracer as tracer
    seen = set()
    count = 0
    stack = [x]
    while stack:
        v = stack.pop()
        if isinstance(v, (list, tuple)):
            stack.extend(v)
            continue
        if isinstance(v, dict):
            stack.extend(v.values())
            continue
        if isinstance(v, tracer.Graph):
            if id(v) in seen:
                continue
            seen.add(id(v))
            count += 1
            stack.append(v.output)
            continue
        if isinstance(v, tracer.Tracer) and v.origin is not None and id(v.origin) not in seen:
            seen.add(id(v.origin))
            o = v.origin
            if isinstance(o, (tracer.signature.python.Call, tracer.Cast)):
                count += 1
            stack.extend(o.inputs)
    return count


def _shape(t):
    try:
        return [int(s) for s in t.shape]
    except Exception:
        return []


def _seq(v):
    try:
        return [int(p) for p in v]
    except Exception:
        return []


class LogPattern:
    def __init__(self, pattern):
        self.pattern = pattern

    def __call__(self, x, transform):
        changed, newobj = self.pattern(x, transform)
        if changed and _state["current"] is not None:
            _state["current"].fires.append(describe(self.pattern, x, newobj))
        return changed, newobj


def describe(pattern, x, newobj):
    import einx._src.tracer as tracer
    from einx._src.tracer.optimizer._util import _skip_id
    name = type(pattern).__name__
    rec = {"rule": name, "perm": [], "perm1": [], "newperm": [], "inshape": [], "shape": [], "newshape": [], "n": 0, "asserts": 0, "exact": 1}
    Call = tracer.signature.python.Call

    def is_call_of(t, fn):
        return isinstance(t, tracer.Tracer) and isinstance(t.origin, Call) and t.origin.function == fn
    if name == "SkipTranspose":
        inp = x.origin.args[0]
        perm = _seq(x.origin.args[1])
        inner = _skip_id(inp)
        if perm == list(range(len(perm))):
            rec.update(rule="SkipTranspose.nop", perm=perm, inshape=_shape(inp))
        elif is_call_of(inner, pattern.transpose) and isinstance(newobj, tracer.Tracer) and isinstance(newobj.origin, Call) and len(newobj.origin.args) == 2:
            rec.update(rule="SkipTranspose.merge", perm=perm, perm1=_seq(inner.origin.args[1]), newperm=_seq(newobj.origin.args[1]), inshape=_shape(inner.origin.args[0]))
        else:
            rec.update(rule="SkipTranspose.nop", perm=perm, inshape=_shape(inp))     # fired although the permutation is not the identity
    elif name == "SkipReshape":
        inp = x.origin.args[0]
        shape = _seq(x.origin.args[1])
        inner = _skip_id(inp)
        if shape == _shape(inp):
            rec.update(rule="SkipReshape.nop", shape=shape, inshape=_shape(inp))
        elif is_call_of(inner, pattern.reshape) and isinstance(newobj, tracer.Tracer) and isinstance(newobj.origin, Call):
            rec.update(rule="SkipReshape.merge", shape=shape, inshape=_shape(inner.origin.args[0]), newshape=_seq(newobj.origin.args[1]))
        else:
            rec.update(rule="SkipReshape.nop", shape=shape, inshape=_shape(inp))
    elif name == "SkipBroadcastTo":
        inp = x.origin.args[0]
        rec.update(rule="SkipBroadcastTo.nop", shape=_seq(x.origin.args[1]), inshape=_shape(inp))
    elif name == "SkipConcatenate":
        rec.update(rule="SkipConcatenate.single", n=len(x.origin.args[0]))
    elif name == "InlineGraph":
        # what is being thrown away: the graph lambda inputs: output.  It is a trivial wrapper iff its output is one call
        # whose arguments ARE the graph inputs (same objects, same order; casts are type annotations) and nothing else
        # - in particular no assertion - hangs on the path
        def strip_casts(v):
            while isinstance(v, tracer.Tracer) and isinstance(v.origin, tracer.Cast) and isinstance(v.origin.input, tracer.Tracer):
                v = v.origin.input
            return v
        asserts = 0
        seen = set()
        stack = [x.output]
        call = None
        while stack:
            v = stack.pop()
            if isinstance(v, (list, tuple)):
                stack.extend(v)
            elif isinstance(v, dict):
                stack.extend(v.values())
            elif isinstance(v, tracer.Tracer) and v.origin is not None and id(v.origin) not in seen:
                seen.add(id(v.origin))
                if isinstance(v.origin, tracer.signature.python.Assert):
                    asserts += 1
                stack.extend(v.origin.inputs)
        out = strip_casts(x.output) if isinstance(x.output, tracer.Tracer) else None
        exact = 0
        if out is not None and isinstance(out.origin, Call) and len(out.origin.kwargs) == 0:
            args = [strip_casts(a) for a in out.origin.args]
            exact = int([id(a) for a in args] == [id(i) for i in x.inputs])
        rec.update(rule="InlineGraph", asserts=asserts, exact=exact, n=len(x.inputs))
    return rec


def install():
    if _state["installed"]:
        return
    import einx._src.tracer as tracer
    import einx._src.tracer.optimizer.optimizer as om
    Orig = om.Optimizer

    class LoggingOptimizer(Orig):
        def __init__(self, optimizations):
            super().__init__([LogPattern(p) for p in optimizations])
            self._first = True
            if _state["current"] is not None:
                _state["current"].passes += 1

        def _optimize(self, x):
            if self._first:
                self._first = False
                if _state["current"] is not None:
                    _state["current"].sizes.append(graph_size(x))
            return super()._optimize(x)
    om.Optimizer = LoggingOptimizer
    orig_opt = tracer.optimize

    def optimize(x, optimizations):
        s = Session()
        prev = _state["current"]
        _state["current"] = s
        try:
            r = orig_opt(x, optimizations=optimizations)
        finally:
            _state["current"] = prev
        s.sizes.append(graph_size(r))
        _state["sessions"].append(s)
        return r
    tracer.optimize = optimize
    _state["installed"] = True


def drain():
    out = [{"fires": s.fires, "passes": s.passes, "sizes": s.sizes} for s in _state["sessions"]]
    del _state["sessions"][:]
    return out
