"""Python source -> abstract skeleton (JSON) for Straightline.tla."""
import ast


def skeleton(node):
    if isinstance(node, ast.Constant):
        v = node.value
        if isinstance(v, bool) or v is None:
            return ["Const", repr(v)]
        if isinstance(v, int):
            return ["INT"]
        if isinstance(v, float):
            return ["FLOAT"]
        return ["Const", repr(v)[:40]]
    if isinstance(node, ast.AST):
        out = [type(node).__name__]
        for name, val in ast.iter_fields(node):
            if name in ("lineno", "col_offset", "end_lineno", "end_col_offset", "ctx", "type_comment", "type_params", "kind"):
                continue
            out.append([name, skeleton(val)])
        return out
    if isinstance(node, list):
        return ["list"] + [skeleton(x) for x in node]
    if isinstance(node, (str, int, float)) or node is None:
        return ["v", str(node)]
    return ["?", str(type(node))]


def analyse(code):
    tree = ast.parse(code)
    stmts = []
    nodes = set()
    calls = 0

    def walk_stmts(body):
        for s in body:
            stmts.append(type(s).__name__)
            if isinstance(s, ast.FunctionDef):
                walk_stmts(s.body)
    walk_stmts(tree.body)
    for n in ast.walk(tree):
        nodes.add(type(n).__name__)
        if isinstance(n, ast.Call):
            calls += 1
    return {"stmts": stmts, "nodes": sorted(nodes), "calls": calls, "skel": skeleton(tree)}


def _dotted(node):
    if isinstance(node, ast.Name):
        return node.id
    if isinstance(node, ast.Attribute):
        b = _dotted(node.value)
        return (b + "." + node.attr) if b else ""
    return ""


def program(code):
    """generated source -> {"params": [...], "stmts": [{target, fn, args, kwout}]} for Alias.tla (outermost function)"""
    tree = ast.parse(code)
    fdef = [n for n in tree.body if isinstance(n, ast.FunctionDef)][-1]
    params = [a.arg for a in fdef.args.args]
    stmts = []

    def name_of(n):
        return n.id if isinstance(n, ast.Name) else ""

    def from_value(target, v):
        if isinstance(v, ast.Call):
            fn = _dotted(v.func)
            kwout = ""
            for kw in v.keywords:
                if kw.arg == "out":
                    kwout = name_of(kw.value)
            args = []
            for a in v.args:
                if isinstance(a, (ast.List, ast.Tuple)):
                    args.extend(name_of(e) for e in a.elts)      # e.g. np.concatenate([a, b]): not a view function, harmless
                else:
                    args.append(name_of(a))
            stmts.append({"target": target, "fn": fn, "args": args, "kwout": kwout})
        elif isinstance(v, ast.Subscript):
            stmts.append({"target": target, "fn": "getitem", "args": [name_of(v.value)], "kwout": ""})
        elif isinstance(v, ast.Attribute):
            stmts.append({"target": target, "fn": "getattr", "args": [name_of(v.value)], "kwout": ""})
        elif isinstance(v, ast.Name):
            stmts.append({"target": target, "fn": "getitem", "args": [v.id], "kwout": ""})
        elif isinstance(v, (ast.Tuple, ast.List)):
            stmts.append({"target": target, "fn": "tuple", "args": [name_of(e) for e in v.elts], "kwout": ""})
        else:
            stmts.append({"target": target, "fn": "other", "args": [], "kwout": ""})

    for s in fdef.body:
        if isinstance(s, ast.Assign):
            t = s.targets[0]
            if isinstance(t, ast.Subscript):
                stmts.append({"target": "", "fn": "setitem", "args": [name_of(t.value)], "kwout": ""})
            elif isinstance(t, (ast.Tuple, ast.List)):
                for e in t.elts:
                    from_value(name_of(e), s.value)
            else:
                from_value(name_of(t), s.value)
        elif isinstance(s, ast.Expr):
            from_value("", s.value)
        elif isinstance(s, ast.AugAssign):
            stmts.append({"target": "", "fn": "setitem", "args": [name_of(s.target)], "kwout": ""})
    return {"params": params, "stmts": stmts}
