"""Python source -> abstract skeleton (JSON) for Straightline.tla."""
import ast


def skeleton(node):
    if isinstance(node, ast.Constant):
        v = node.value
        if isinstance(v, bool) or v is None:
            return ["Const", repr(v)]
        if isinstance(v, int):
            return ["INT"]
        if isinstance(v, float):
            return ["FLOAT"]
        return ["Const", repr(v)[:40]]
    if isinstance(node, ast.AST):
        out = [type(node).__name__]
        for name, val in ast.iter_fields(node):
            if name in ("lineno", "col_offset", "end_lineno", "end_col_offset", "ctx", "type_comment", "type_params", "kind"):
                continue
            out.append([name, skeleton(val)])
        return out
    if isinstance(node, list):
        return ["list"] + [skeleton(x) for x in node]
    if isinstance(node, (str, int, float)) or node is None:
        return ["v", str(node)]
    return ["?", str(type(node))]


def analyse(code):
    tree = ast.parse(code)
    stmts = []
    nodes = set()
    calls = 0

    def walk_stmts(body):
        for s in body:
            stmts.append(type(s).__name__)
            if isinstance(s, ast.FunctionDef):
                walk_stmts(s.body)
    walk_stmts(tree.body)
    for n in ast.walk(tree):
        nodes.add(type(n).__name__)
        if isinstance(n, ast.Call):
            calls += 1
    return {"stmts": stmts, "nodes": sorted(nodes), "calls": calls, "skel": skeleton(tree)}
