"""Executes a Denote table (Loop.tla:Groups, exported by Cases.tla) with numpy elementary functions.

The table says, per loop iteration, which flat positions of every input form the sub-tensor handed to the elementary
operation and which flat positions of the output receive its result.  Nothing here knows about reshape / transpose /
einsum: only gather, apply, scatter."""
import numpy as np

ELEMENTWISE = {
    "add": np.add, "subtract": np.subtract, "multiply": np.multiply, "true_divide": np.true_divide,
    "floor_divide": np.floor_divide, "divide": np.divide, "logical_and": np.logical_and, "logical_or": np.logical_or,
    "maximum": np.maximum, "minimum": np.minimum, "less": np.less, "less_equal": np.less_equal, "greater": np.greater,
    "greater_equal": np.greater_equal, "equal": np.equal, "not_equal": np.not_equal, "logaddexp": np.logaddexp,
}


def _logsumexp(x):
    m = np.max(x)
    return m + np.log(np.sum(np.exp(x - m)))


REDUCE = {
    "sum": np.sum, "mean": np.mean, "var": np.var, "std": np.std, "prod": np.prod, "count_nonzero": np.count_nonzero,
    "any": np.any, "all": np.all, "max": np.max, "min": np.min, "logsumexp": _logsumexp,
}


def _softmax(x):
    e = np.exp(x - np.max(x))
    return e / np.sum(e)


def _preserve(op, sub, kw):
    if op == "flip":
        return sub[tuple(slice(None, None, -1) for _ in sub.shape)]
    if op == "roll":
        s = kw["shift"]
        shifts = tuple(s) if isinstance(s, (tuple, list)) else (s,) * sub.ndim
        return np.roll(sub, shifts, axis=tuple(range(sub.ndim)))
    if op == "sort":
        return np.sort(sub, axis=0)
    if op == "argsort":
        return np.argsort(sub, axis=0)
    if op == "softmax":
        return _softmax(sub)
    if op == "log_softmax":
        return np.log(_softmax(sub))
    raise KeyError(op)


def out_dtype(fam, op, ins):
    if fam == "argfind" or op in ("argsort", "count_nonzero"):
        return np.int64
    if op in ("less", "less_equal", "greater", "greater_equal", "equal", "not_equal", "logical_and", "logical_or", "any", "all"):
        return np.bool_
    if fam in ("id", "get_at", "update_at") or op in ("flip", "roll", "sort"):
        return ins[0].dtype
    return np.float64


def reference(case, op, ins, kw=None):
    """ins: list of numpy arrays shaped like case['ins'][i]['shape'].  Returns list of output arrays."""
    fam = case["fam"]
    kw = kw or {}
    flat = [np.asarray(x).reshape(-1) for x in ins]
    outs = [np.zeros(int(np.prod(o["shape"])) if o["shape"] else 1, dtype=out_dtype(fam, op, ins)) for o in case["outs"]]
    written = [np.zeros(len(o), dtype=bool) for o in outs]
    if fam == "update_at":
        # the output starts as the target; every group contributes its update to the addressed cell
        tgt = flat[0]
        out = outs[0]
        g0 = case["groups"]
        # copy target through the identity of positions (target and output expressions are the same expression)
        out[:] = tgt
        brshape = case["ins"][0]["brshape"]
        winners = {}
        for g in g0:
            coords = np.concatenate([flat[i][g["ins"][i]] for i in range(1, len(flat) - 1)]).astype(np.int64)
            upd = flat[-1][g["ins"][-1]]
            assert len(upd) == 1
            cell = g["outs"][0][int(np.ravel_multi_index(tuple(coords), brshape))]
            if op == "add_at":
                out[cell] += upd[0]
            elif op == "subtract_at":
                out[cell] -= upd[0]
            else:
                winners.setdefault(cell, []).append(upd[0])
        return [out.reshape(case["outs"][0]["shape"])], winners
    for g in case["groups"]:
        subs = [flat[i][g["ins"][i]] for i in range(len(flat))]
        if fam == "id":
            (i,) = [k for k in range(len(subs)) if len(g["ins"][k])]
            (o,) = [k for k in range(len(outs)) if len(g["outs"][k])]
            res = [None] * len(outs)
            res[o] = subs[i]
        elif fam == "elementwise":
            if op == "where":
                res = [np.where(subs[0], subs[1], subs[2])]
            else:
                f = ELEMENTWISE[op]
                r = subs[0]
                for s in subs[1:]:
                    r = f(r, s)
                res = [r]
        elif fam == "reduce":
            res = [np.asarray(REDUCE[op](subs[0].reshape(case["ins"][0]["brshape"]))).reshape(-1)]
        elif fam == "dot":
            letters = {}
            args = []
            for k, s in enumerate(subs):
                names = case["ins"][k]["brnames"]
                for n in names:
                    letters.setdefault(n, chr(ord("a") + len(letters)))
                args.append("".join(letters[n] for n in names))
            r = np.einsum(",".join(args) + "->", *[s.reshape(case["ins"][k]["brshape"]) for k, s in enumerate(subs)])
            res = [np.asarray(r).reshape(-1)]
        elif fam == "preserve":
            sub = subs[0].reshape(case["ins"][0]["brshape"])
            res = [np.asarray(_preserve(op, sub, kw)).reshape(-1)]
        elif fam == "argfind":
            sub = subs[0].reshape(-1)
            idx = int(np.argmax(sub) if op == "argmax" else np.argmin(sub))
            coords = np.unravel_index(idx, case["ins"][0]["brshape"])
            res = [np.asarray(coords, dtype=np.int64).reshape(-1)]
        elif fam == "get_at":
            sub = subs[0].reshape(case["ins"][0]["brshape"])
            coords = np.concatenate(subs[1:]).astype(np.int64)
            res = [np.asarray(sub[tuple(coords)]).reshape(-1)]
        else:
            raise KeyError(fam)
        for o in range(len(outs)):
            if res[o] is None:
                continue
            pos = g["outs"][o]
            assert len(pos) == len(res[o]), (fam, op, len(pos), len(res[o]))
            outs[o][pos] = res[o]
            written[o][pos] = True
    assert all(w.all() for w in written), "denotation does not cover the output"
    return [o.reshape(case["outs"][k]["shape"]) for k, o in enumerate(outs)], None
