"""C14 - indexed updates apply every update exactly once and touch nothing else.

Explore : Cases.tla family update_at (several coordinate layouts: coordinate axis first/last, scattered / flattened
          bracketed target axes, missing / extra vectorised axes in coordinates and updates).  TLC checks on every case
          C14_ContribPartition (each iteration consumes one update element and one coordinate vector; every update
          element is consumed equally often; the addressed target slice is the output slice) and WellDefinedInv.
Replay  : for every case the real set_at / add_at / subtract_at run on all three backends with SEVERAL coordinate
          assignments (all-equal coordinates = maximal duplication, all-distinct where possible, and seeded random ones).
          add/subtract must equal the accumulated contributions exactly (integers), set must leave one of the competing
          values in each addressed cell and every other cell untouched; get_at with the same coordinates must read back
          a value set_at wrote."""
import json

import numpy as np

import common
import corpus
import drive_calls as DC
import loopref


def coord_variants(case, rng, nrandom):
    """list of coordinate tensors for input 1 (single coordinate tensor in the corpus)"""
    br = case["ins"][0]["brshape"]
    shape = tuple(case["ins"][1]["shape"])
    n = int(np.prod(shape)) if shape else 1
    out = []
    for fill in ("zeros", "max"):
        arr = np.zeros(n, dtype=np.int64)
        for g in case["groups"]:
            for c, p in enumerate(g["ins"][1]):
                arr[p] = 0 if fill == "zeros" else br[c] - 1
        out.append(arr.reshape(shape))
    for _ in range(nrandom):
        arr = np.zeros(n, dtype=np.int64)
        for g in case["groups"]:
            for c, p in enumerate(g["ins"][1]):
                arr[p] = rng.integers(0, br[c])
        out.append(arr.reshape(shape))
    return out


def run_case(case, seed, nrandom):
    import einx
    findings = []
    calls = 0
    rng = np.random.default_rng(seed)
    tshape = tuple(case["ins"][0]["shape"])
    ushape = tuple(case["ins"][2]["shape"])
    nt = int(np.prod(tshape)) if tshape else 1
    nu = int(np.prod(ushape)) if ushape else 1
    sizes = {n: int(v) for n, v in case["L"].items() if n in set(case["desc"])}
    desc = DC.desc_of(case)
    gdesc = None
    for coords in coord_variants(case, rng, nrandom):
        target = (rng.permutation(nt) * 3 + 1).astype(np.int64).reshape(tshape)
        # update values: distinct powers of a base larger than the maximal multiplicity -> the sum decodes to the bag
        base = len(case["groups"]) + 1
        upd = (np.int64(base) ** (np.arange(nu, dtype=np.int64) % 12) * 1000 + np.arange(nu, dtype=np.int64) * 100000).reshape(ushape)
        for op in ("add_at", "subtract_at", "set_at"):
            (exp,), winners = loopref.reference(case, op, [target, coords, upd])
            for backend in DC.BACKENDS:
                calls += 1
                t2, c2, u2 = target.copy(), coords.copy(), upd.copy()
                try:
                    got = np.asarray(getattr(einx, op)(desc, t2, c2, u2, backend=backend, **sizes))
                except einx.errors.OperationNotSupportedError:
                    continue
                except Exception as e:
                    findings.append({"op": op, "backend": backend, "kind": "exception:" + type(e).__name__, "detail": str(e)[:200], "coords": coords.tolist()})
                    continue
                if got.shape != exp.shape:
                    findings.append({"op": op, "backend": backend, "kind": "wrong_shape", "detail": "%s vs %s" % (got.shape, exp.shape), "coords": coords.tolist()})
                    continue
                gf, ef = got.reshape(-1), exp.reshape(-1).copy()
                if op == "set_at":
                    bad = [cell for cell, vals in winners.items() if not any(gf[cell] == v for v in vals)]
                    for cell in winners:
                        ef[cell] = gf[cell]
                    if bad or not np.array_equal(ef, gf):
                        findings.append({"op": op, "backend": backend, "kind": "wrong_value",
                                         "detail": "set_at: cells %s hold a value that no addressed update provides, or an unaddressed cell changed; got %s" % (bad[:4], gf[:8].tolist()),
                                         "coords": coords.tolist()})
                        continue
                    # read back with get_at: same coordinates, output = coordinate loop axes
                    try:
                        gd = "".join(case["intoks"][0]) + ", " + "".join(case["intoks"][1]) + " -> " + " ".join(
                            [t for t in dict.fromkeys([x for x in case["intoks"][0] + case["intoks"][1] if x.isalpha()]) if t not in ("h", "w")])
                        back = np.asarray(einx.get_at(gd, got, coords, backend=backend, **sizes))
                        calls += 1
                        allv = set(int(v) for vals in winners.values() for v in vals)
                        if not all(int(v) in allv for v in back.reshape(-1)):
                            findings.append({"op": "get_at(set_at)", "backend": backend, "kind": "wrong_value",
                                             "detail": "get_at reads %s which set_at never wrote" % back.reshape(-1)[:6].tolist(), "coords": coords.tolist()})
                    except einx.errors.OperationNotSupportedError:
                        pass
                    except Exception as e:
                        findings.append({"op": "get_at(set_at)", "backend": backend, "kind": "exception:" + type(e).__name__, "detail": (gd + ": " + str(e))[:200], "coords": coords.tolist()})
                elif not np.array_equal(gf, ef):
                    findings.append({"op": op, "backend": backend, "kind": "wrong_value",
                                     "detail": "accumulated contributions differ at %d cells: got %s expected %s" % (int(np.sum(gf != ef)), gf[:6].tolist(), ef[:6].tolist()),
                                     "coords": coords.tolist()})
    return findings, calls


def run_chunk(items):
    out = []
    for it in items:
        try:
            f, calls = run_case(it["case"], it["seed"], it["nrandom"])
        except Exception:
            import traceback
            f, calls = [{"op": "-", "backend": "-", "kind": "machinery", "detail": traceback.format_exc()[-600:], "coords": []}], 0
        out.append({"findings": f, "calls": calls})
    return out


def run(tier):
    import sys
    rep = common.Report("C14", tier)
    rep.rule = ("all update_at expressions of Cases.tla within the bounds x coordinate assignments {all zero, all maximal, seeded random}; "
                "non-trivial = the coordinate assignment addresses some cell more than once or the update lacks/has extra vectorised axes")
    rep.assumptions = ["numpy backends only", "one coordinate tensor per call in the enumerated corpus (several coordinate tensors are exercised by C03/C09 corpora only)"]
    # bracketed target axes of length 1 next to longer ones are a blind spot of shape-only tests: h = 1, w = 3
    lens = (corpus.LENS_QUICK if tier == "quick" else corpus.LENS_THOROUGH) + [(2, 3, 2, 2, 1, 3)]
    cases = corpus.generate(rep, [("update_at", ["a", "b"], lens, 2, 3)])
    rep.exhaustive = True
    if tier == "thorough":
        cases = corpus.cap(cases, 12000)      # an uncapped thorough run (about 90 000 cases x 4 coordinate draws) did not finish within 40 minutes
    if tier == "quick":
        cases = cases[::17]         # stride coprime to the enumeration periods: every target / coordinate / update shape still occurs
    items = [{"case": c, "seed": common.seed() * 7919 + i, "nrandom": 1 if tier == "quick" else 4} for i, c in enumerate(cases)]
    results = common.parallel_map("run_chunk", sys.modules[__name__], items)
    for it, r in zip(items, results):
        c = it["case"]
        rep.replayed += 1
        rep.evaluations += r["calls"]
        rep.nontriv(DC.desc_of(c) + json.dumps(c["L"], sort_keys=True))
        for f in r["findings"]:
            if f["kind"] == "machinery":
                raise common.MachineryError(f["detail"])
            rep.violation({"kind": f["kind"], "op": f["op"], "backend": f["backend"], "features": DC.features(c)},
                          {"case": c, "op": f["op"], "backend": f["backend"], "coords": f["coords"]},
                          "einx.%s(%r, backend=%r) lengths %s coords %s: %s" % (f["op"], DC.desc_of(c), f["backend"], {k: v for k, v in c["L"].items() if k in set(c["desc"])}, f["coords"], f["detail"]))
    for c in (cases[0], cases[-1]):
        rep.sample({"description": DC.desc_of(c), "lengths": {k: v for k, v in c["L"].items() if k in set(c["desc"])}, "first_group": c["groups"][0]})
    return rep.finish()


def replay(path):
    with open(path) as f:
        v = json.load(f)
    f2, _ = run_case(v["case"]["case"], 0, 2)
    print(f2[:3])
    if f2:
        print("VIOLATION property=C14 replay=%s" % path)
        return 1
    return 0
