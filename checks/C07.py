"""C07 - documented shorthand forms mean exactly their documented expansions.

Explore : Shorthand.tla turns the documentation's equations into rewrite rules on the corpus cases (omitted output,
          un-bracketed reduction/dot, a number for a fresh axis, anonymous / named ellipsis and their written-out
          repetition, nested '->' and ',', adjacent brackets, keepdims=True, length-1 coordinate bracket, extra
          spaces, rearrange = id).  TLC enumerates every instance, checks with Parse.tla that both members are
          syntactically valid (C07_BothParse) and that the purely syntactic rules give identical trees
          (C07_SyntacticSame).
Replay  : for every pair the real einx runs both members on the same tensors (operations of the family, all
          backends); shapes and values must be equal, or both must fail with the same kind of error.  The long member
          is a C01 case, i.e. also tied to the loop-notation denotation."""
import json
import sys
import warnings

import numpy as np

import common
import corpus
import drive_calls as DC

OPS = {"id": ["id"], "elementwise": ["subtract", "maximum"], "reduce": ["sum", "max", "mean"], "dot": ["dot"], "preserve": ["flip", "softmax"],
       "argfind": ["argmax"], "get_at": ["get_at"], "update_at": ["add_at", "set_at"]}


def call(op, toks, ins, backend, L, kw):
    import einx
    desc = "".join(toks)
    names = set(toks)
    sizes = {n: int(v) for n, v in L.items() if n in names}
    with warnings.catch_warnings():
        warnings.simplefilter("ignore")
        return getattr(einx, op)(desc, *ins, backend=backend, **sizes, **kw)


def outcome(fn):
    import einx
    try:
        r = fn()
        return ("ok", [np.asarray(x) for x in (r if isinstance(r, (tuple, list)) else [r])])
    except einx.errors.OperationNotSupportedError:
        return ("notsupported", None)
    except Exception as e:
        return ("exc:" + type(e).__name__, str(e)[:160])


def same(a, b):
    if a.shape != b.shape:
        return False
    if a.dtype.kind not in "biufc" or b.dtype.kind not in "biufc":
        return bool(np.array_equal(a, b))         # e.g. both calls returned text
    if a.dtype.kind in "biu" and b.dtype.kind in "biu":
        return np.array_equal(a, b)
    return np.allclose(a, b, rtol=1e-6, atol=1e-9, equal_nan=True)


def run_ellscalar(it):
    """pairs with explicit keyword sizes: scalar vs tuple vs written-out repetition"""
    import einx
    findings, calls = [], 0
    rng = np.random.default_rng(it["seed"])
    for p in it["pairs"]:
        shape = tuple(p["shape"])
        x = rng.permutation(int(np.prod(shape))).reshape(shape).astype(np.int64)
        ks, kl = p["kwshort"], p["kwlong"]
        tail = "d" in p["short"]
        kw_s = {"c": int(ks["c"][0])}
        if p["kind"] == "ellipsis_scalar_vs_tuple":
            kw_l = {"c": tuple(int(v) for v in kl["c"])}
        else:
            kw_l = {n: int(v) for n, v in zip(p["names"], kl["c"])}
        if tail:
            kw_s["d"] = int(ks["d"][0])
            kw_l["d"] = int(kl["d"][0])
        for backend in DC.BACKENDS:
            with warnings.catch_warnings():
                warnings.simplefilter("ignore")
                k1, r1 = outcome(lambda: einx.id("".join(p["short"]), x.copy(), backend=backend, **kw_s))
                k2, r2 = outcome(lambda: einx.id("".join(p["long"]), x.copy(), backend=backend, **kw_l))
            calls += 2
            if k1 != k2:
                findings.append({"op": "id", "backend": backend, "rule": p["kind"], "kind": "different-outcome",
                                 "detail": "%r %s -> %s %s but %r %s -> %s %s" % ("".join(p["short"]), kw_s, k1, r1 if k1 != "ok" else "", "".join(p["long"]), kw_l, k2, r2 if k2 != "ok" else "")})
            elif k1 == "ok" and not same(r1[0], r2[0]):
                findings.append({"op": "id", "backend": backend, "rule": p["kind"], "kind": "different-result",
                                 "detail": "%r %s and %r %s give different results" % ("".join(p["short"]), kw_s, "".join(p["long"]), kw_l)})
    return findings, calls


def run_item(it):
    base, pairs, ops, seed = it["base"], it["pairs"], it["ops"], it["seed"]
    if base["fam"] == "ellscalar":
        return run_ellscalar(it)
    findings = []
    calls = 0
    rng = np.random.default_rng(seed)
    for op in ops:
        ins = DC.probe_inputs(base, op, rng)
        for backend in DC.BACKENDS:
            for p in pairs:
                # the ellipsis / number forms need the sizes the long form got from names: pass only what each member names
                kw_short = {"keepdims": True} if p["kw"].get("keepdims") else {}
                if p["kind"] == "keepdims" and base["fam"] != "reduce":
                    continue
                op_short = "rearrange" if p["opmap"] == "rearrange" else op
                ins_short = [x.copy() for x in ins]
                squeeze_out = None
                if p["kind"] == "unit_coordinate_bracket":
                    # the member without the [1] bracket talks about tensors without that unit dimension
                    if base["fam"] == "get_at":
                        for k in range(1, len(ins_short)):
                            toks = base["intoks"][k]
                            if toks[:3] == ["[", "1", "]"]:
                                ins_short[k] = ins_short[k].reshape(ins_short[k].shape[1:])
                            elif toks[-3:] == ["[", "1", "]"]:
                                ins_short[k] = ins_short[k].reshape(ins_short[k].shape[:-1])
                    else:
                        squeeze_out = 0 if base["outtoks"][0][:3] == ["[", "1", "]"] else -1
                if p["opmap"] == "rearrange":
                    # einx.rearrange = einx.id for EVERY description: also when an axis is named like a parameter that only
                    # rearrange's signature has (it would capture the axis size); names are read off the live signatures
                    import inspect
                    import einx
                    pid = set(inspect.signature(einx.id).parameters)
                    extra = [n for n, q in inspect.signature(einx.rearrange).parameters.items()
                             if n not in pid and q.kind in (q.KEYWORD_ONLY, q.POSITIONAL_OR_KEYWORD) and n != "description" and n.isidentifier()]
                    first = next((t for t in p["short"] if t.isalpha()), None)
                    for e in extra:
                        if first is None:
                            break
                        toks2 = [e if t == first else t for t in p["short"]]
                        L2 = dict(base["L"])
                        L2[e] = L2[first]
                        ka, ra = outcome(lambda: call("rearrange", toks2, [x.copy() for x in ins], backend, L2, {}))
                        kb, rb = outcome(lambda: call("id", toks2, [x.copy() for x in ins], backend, L2, {}))
                        calls += 2
                        if ka != kb or (ka == "ok" and (len(ra) != len(rb) or not all(same(a, b) for a, b in zip(ra, rb)))):
                            findings.append({"op": op, "backend": backend, "rule": "rearrange", "kind": "different-outcome",
                                             "detail": "axis named %r: einx.rearrange(%r) -> %s but einx.id -> %s" % (e, "".join(toks2), ka, kb)})
                if p["opmap"] == "reject":
                    # no unique default output: the documented outcome of the short form is SemanticError
                    k1, r1 = outcome(lambda: call(op, p["short"], ins_short, backend, base["L"], {}))
                    calls += 1
                    if k1 not in ("exc:SemanticError", "notsupported"):      # a backend without element-wise operations says so first
                        findings.append({"op": op, "backend": backend, "rule": p["kind"], "kind": "ambiguous-default-output-accepted",
                                         "detail": "%r has no unique default output but the call ended with %s" % ("".join(p["short"]), k1)})
                    continue
                k1, r1 = outcome(lambda: call(op_short, p["short"], ins_short, backend, base["L"], kw_short))
                k2, r2 = outcome(lambda: call(op, p["long"], [x.copy() for x in ins], backend, base["L"], {}))
                if squeeze_out is not None and k2 == "ok":
                    r2 = [np.squeeze(r2[0], axis=squeeze_out)]
                calls += 2
                if k1 != k2:
                    findings.append({"op": op, "backend": backend, "rule": p["kind"], "kind": "different-outcome",
                                     "detail": "%r -> %s %s but %r -> %s %s" % ("".join(p["short"]), k1, r1 if k1 != "ok" else "", "".join(p["long"]), k2, r2 if k2 != "ok" else "")})
                elif k1 == "ok" and (len(r1) != len(r2) or not all(same(a, b) for a, b in zip(r1, r2))):
                    findings.append({"op": op, "backend": backend, "rule": p["kind"], "kind": "different-result",
                                     "detail": "%r (%s) and %r give different results: shapes %s vs %s" % ("".join(p["short"]), kw_short, "".join(p["long"]), [x.shape for x in r1], [x.shape for x in r2])})
    return findings, calls


def run_chunk(items):
    out = []
    for it in items:
        try:
            f, c = run_item(it)
        except Exception:
            import traceback
            f, c = [{"op": "-", "backend": "-", "rule": "-", "kind": "machinery", "detail": traceback.format_exc()[-700:]}], 0
        out.append({"findings": f, "calls": c})
    return out


def run(tier):
    rep = common.Report("C07", tier)
    rep.rule = ("every corpus case x every shorthand rule that applies to it (rules are defined in Shorthand.tla); "
                "non-trivial = pairs of rules other than 'spaces'")
    rep.assumptions = ["numpy backends only", "scalar-size-for-ellipsis-axis and deeper nestings of '->' / ',' are sampled by the C02/C12 corpora, not here"]
    specs = corpus.quick_specs() if tier == "quick" else corpus.thorough_specs()
    if tier == "quick":
        specs = [s for s in specs if s[0] != "update_at"] + [("update_at", ["a"], corpus.LENS_QUICK[:1], 2, 3)]
    specs.append(("ellscalar", ["a"], [corpus.LENS_QUICK[0]], 1, 1))
    recs = corpus.generate(rep, specs, mode="short", timeout=1500 if tier == "quick" else 3000)
    if tier == "thorough":
        recs = corpus.cap(recs, 40000)
    rep.exhaustive = True
    if tier == "quick":
        keep = {"elementwise": 12, "get_at": 9, "id": 6, "update_at": 10, "preserve": 3, "argfind": 3}
        recs = [r for i, r in enumerate(recs) if i % keep.get(r["base"]["fam"], 1) == 0]
    OPS["ellscalar"] = ["id"]
    items = [{"base": r["base"], "pairs": r["pairs"], "ops": OPS[r["base"]["fam"]] if tier == "thorough" else [OPS[r["base"]["fam"]][i % len(OPS[r["base"]["fam"]])]],
              "seed": common.seed() * 15485863 + i} for i, r in enumerate(recs)]
    results = common.parallel_map("run_chunk", sys.modules[__name__], items)
    rules = {}
    for it, r in zip(items, results):
        rep.replayed += len(it["pairs"])
        rep.evaluations += r["calls"]
        for p in it["pairs"]:
            rules[p["kind"]] = rules.get(p["kind"], 0) + 1
            if p["kind"] != "spaces":
                rep.nontriv(p["kind"] + "".join(p["short"]) + "|" + "".join(p["long"]) + json.dumps(it["base"].get("L", it["base"]), sort_keys=True))
        for f in r["findings"]:
            if f["kind"] == "machinery":
                raise common.MachineryError(f["detail"])
            lens = {k: v for k, v in it["base"]["L"].items() if k in set(it["base"]["desc"])} if "L" in it["base"] else {}
            rep.violation({"kind": f["kind"], "rule": f["rule"], "op": f["op"], "backend": f["backend"], "fam": it["base"]["fam"]},
                          {"item": it}, "einx.%s backend=%s rule=%s lengths=%s: %s" % (f["op"], f["backend"], f["rule"], lens, f["detail"]))
    rep.extra["pairs_per_rule"] = rules
    for it in [i for i in items if "desc" in i["base"]][:: max(1, len(items) // 4)][:4]:
        rep.sample({"long": "".join(it["base"]["desc"]), "pairs": [[p["kind"], "".join(p["short"]), "".join(p["long"]), p["kw"]] for p in it["pairs"]][:5]})
    return rep.finish()


def replay(path):
    with open(path) as f:
        v = json.load(f)
    f2, _ = run_item(v["case"]["item"])
    print(f2[:3])
    if f2:
        print("VIOLATION property=C07 replay=%s" % path)
        return 1
    return 0
