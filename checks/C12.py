"""C12 - the expression parser is total and stable under re-printing and extra spacing.

Explore : Parse.tla (token-level specification of parse_op and the tree normal forms).  TLC enumerates every
          token sequence up to a length bound and checks on the specification: Parse is defined everywhere
          (C12_Total), redundant spaces never change the verdict or the tree (C12_SpaceInvariant), every accepted
          tree prints to the notation and re-reads to itself (C12_RoundTrip).
Validate: the same sequences (rendered to strings) are given to the real stage1.parse_op; each recorded outcome
          (accept + tree, or SyntaxError) is checked by TLC against Parse (Trace_Parse.tla).  Any other exception
          class, a message that does not quote the caller's string, a caret outside it, or a printed form that the
          real parser does not re-read to the same structure is a violation by itself.
          Random strings over arbitrary characters go through the same path."""
import json
import os
import random

import common
import drive_parse as DP

SPEC = common.SPEC
NAMES, NUMS, JUNK = ["a", "b"], ["0", "1"], ["$"]


def consts(maxlen=None, names=NAMES, nums=NUMS, junk=JUNK):
    c = {"NameToks": set(names), "NumToks": set(nums), "JunkToks": set(junk)}
    if maxlen is not None:
        c["MaxLen"] = maxlen
    return c


def explore(rep, maxlen, timeout):
    cfg = common.write_cfg(os.path.join(common.workdir(), "mc_parse.cfg"), spec="Spec", constants=consts(maxlen),
                           invariants=["C12_Total", "C12_SpaceInvariant", "C12_RoundTrip"])
    res = common.run_tlc(os.path.join(SPEC, "mc", "MC_Parse.tla"), cfg, timeout=timeout)
    if res.rc == 124:
        rep.tlc_runs.append({"config": "MC_Parse N=%d" % maxlen, "timeout": True})
        return False
    rep.add_tlc("MC_Parse: all token sequences up to %d" % maxlen, res)
    if res.violated:
        rep.violation({"kind": "model", "invariant": res.violated}, {"maxlen": maxlen},
                      "TLC: %s violated on Parse.tla (the specification of the current parser).\n%s" % (res.violated, res.counterexample()[:3000]))
    return True


def validate(rep, observations, names, nums, junk, tag):
    """TLC decides for every recorded outcome whether it is what Parse.tla prescribes"""
    d = common.workdir("c12")
    nsh = min(16, max(1, len(observations) // 2000))
    shards = [observations[i::nsh] for i in range(nsh)]
    import concurrent.futures as cf

    def run_shard(i):
        path = os.path.join(d, "%s_%d.ndjson" % (tag, i))
        with open(path, "w") as f:
            for o in shards[i]:
                rec = {"toks": o["toks"], "ok": o["ok"], "tree": o.get("tree", {"k": "none"})}
                f.write(json.dumps(rec) + "\n")
        cfg = common.write_cfg(os.path.join(d, "%s_%d.cfg" % (tag, i)), spec="TSpec", constants=consts(None, names, nums, junk),
                               constraints=["Chk"])
        return common.run_tlc(os.path.join(SPEC, "Trace_Parse.tla"), cfg, workers=1, env={"TRACE_FILE": path})

    with cf.ThreadPoolExecutor(nsh) as ex:
        results = list(ex.map(run_shard, range(nsh)))
    accepted = 0
    for i, res in enumerate(results):
        rep.add_tlc("Trace_Parse %s shard %d (%d outcomes)" % (tag, i, len(shards[i])), res)
        if res.distinct != len(shards[i]) and not res.out.count("MISMATCH"):
            raise common.MachineryError("Trace_Parse consumed %d of %d records\n%s" % (res.distinct, len(shards[i]), res.out[-2000:]))
        mism = []
        for line in res.out.splitlines():
            if line.startswith('<<"MISMATCH"'):
                mism.append(int(line.split(",")[1].strip()))
        accepted += len(shards[i]) - len(mism)
        for t in mism:
            o = shards[i][t - 1]
            text = o.get("text", "".join(o["toks"]))
            if o["ok"] is False and o.get("cls") != "SyntaxError":
                continue  # reported as internal exception below
            rep.violation({"kind": "verdict-mismatch", "real": "accept" if o["ok"] else "reject"},
                          {"text": text, "toks": o["toks"], "observed": o},
                          "parse_op(%r): real parser %s but Parse.tla says otherwise" % (text, "accepts with tree %s" % json.dumps(o.get("tree")) if o["ok"] else "raises SyntaxError"))
    return accepted


def collect_problems(rep, observations):
    for o in observations:
        rep.evaluations += 1
        text = "".join(o["toks"])
        if o["ok"] and any(t in ("(", "[", "...", "->", ",", "+") for t in o["toks"]):
            rep.nontriv(text)
        for p in o["problems"]:
            kind = "internal-exception" if p.startswith("internal exception") else ("roundtrip" if "re-read" in p or "printed form" in p else "message")
            sig = {"kind": kind}
            if kind == "internal-exception":
                sig["cls"] = o.get("cls")
                sig["has_pipe"] = "|" in text
            rep.violation(sig, {"text": text, "toks": o["toks"]}, "parse_op(%r): %s" % (text, p))


class _Shaped:
    def __init__(self, shape):
        self.shape = shape


def foreign_text_probes(rep):
    """'no operation ever fails with a syntax error about text the caller did not write': einx re-parses text it
    generates itself from shapes and keyword sizes.  Calls with syntactically valid descriptions and high rank, long
    lengths, long size vectors, and numpy print options that change how arrays are rendered must never end in SyntaxError
    (or an internal exception); any other documented outcome is fine."""
    import numpy as np
    import einx
    internal = (AssertionError, NameError, KeyError, IndexError, AttributeError, RecursionError, UnboundLocalError, NotImplementedError)
    probes = []
    for r in (8, 20, 33, 38, 45, 64):
        probes.append(("solve_shapes('a...', rank %d)" % r, lambda r=r: einx.solve_shapes("a...", _Shaped((1,) * r))))
        probes.append(("matches('b a...', rank %d)" % r, lambda r=r: einx.matches("b a...", _Shaped((2,) + (3,) * (r - 1)))))
        probes.append(("solve_axes('(a b)...', rank %d, b=[1]*%d)" % (r, r), lambda r=r: einx.solve_axes("(a b)...", _Shaped((2,) * r), b=[1] * r)))
        probes.append(("solve_axes('(a b)...', rank %d, b=array)" % r, lambda r=r: einx.solve_axes("(a b)...", _Shaped((2,) * r), b=np.ones(r, dtype=np.int64))))
    for digits in (6, 12, 18):
        n = int("1" + "23456789012345678"[: digits - 1])
        probes.append(("solve_shapes(8 axes of %d digits)" % digits, lambda n=n: einx.solve_shapes("a b c d e f g h", _Shaped((n,) * 8))))
        probes.append(("solve_axes('(a 2) b...', %d digits)" % digits, lambda n=n: einx.solve_axes("(a 2) b...", _Shaped((2 * n,) + (n,) * 6))))
    for r in (12, 24, 31):
        probes.append(("id('a... -> a...', rank %d)" % r, lambda r=r: einx.id("a... -> a...", np.zeros((1,) * r))))
        probes.append(("sum('[a]...', rank %d)" % r, lambda r=r: einx.sum("[a]...", np.zeros((1,) * r))))
        probes.append(("id('(a b)... -> a... b...', rank %d, b=tuple)" % r, lambda r=r: einx.id("(a b)... -> a... b...", np.zeros((2,) * r)[tuple([slice(0, 1)] * (r - 6))], b=(1,) * r)))
    saved = np.get_printoptions()
    results = []
    import signal

    class _ProbeTimeout(BaseException):
        pass

    def _on_alarm(*a):
        raise _ProbeTimeout()
    old_handler = signal.signal(signal.SIGALRM, _on_alarm)
    try:
        for opts in ({}, {"linewidth": 20}, {"threshold": 3, "edgeitems": 1}, {"precision": 1, "linewidth": 40, "threshold": 5}):
            np.set_printoptions(**{**saved, **opts})
            for label, fn in probes:
                rep.evaluations += 1
                signal.alarm(60)          # every probe is tiny: one that has not finished after a minute does not terminate in practice
                try:
                    fn()
                    out = "ok"
                except _ProbeTimeout:
                    out = "timeout"
                    results.append((label, opts, "Timeout", "the call did not finish within 60 s (on the unchanged tree every probe takes well under a second)"))
                except einx.errors.SyntaxError as e:
                    out = "SyntaxError"
                    results.append((label, opts, "SyntaxError", str(e)[:300]))
                except internal as e:
                    out = type(e).__name__
                    results.append((label, opts, type(e).__name__, str(e)[:300]))
                except Exception as e:
                    out = type(e).__name__
                finally:
                    signal.alarm(0)
    finally:
        signal.alarm(0)
        signal.signal(signal.SIGALRM, old_handler)
        np.set_printoptions(**saved)
    rep.extra["foreign_text_probes"] = len(probes) * 4
    for label, opts, cls, msg in results:
        rep.violation({"kind": "syntax-error-about-text-the-caller-did-not-write" if cls == "SyntaxError" else ("does-not-terminate" if cls == "Timeout" else "internal-exception"), "cls": cls, "probe": label.split("(")[0], "printoptions": bool(opts)},
                      {"text": label, "printoptions": opts}, "%s with numpy print options %s: %s: %s" % (label, opts or "default", cls, msg))


def run(tier):
    rep = common.Report("C12", tier)
    rep.rule = ("all token sequences up to the length bound over {a, b, 0, 1, $, ( ) [ ] ... -> , + space} in the lexer's image "
                "(no adjacent alphanumeric tokens); a case is counted non-trivial when it is accepted and contains at least one structural token")
    rep.assumptions = ["strings are token sequences rendered by concatenation; the lexer's image is characterised by WellLexed",
                       "longer strings are covered by seeded random sampling, not exhaustively"]
    n_explore, n_validate = (5, 5) if tier == "quick" else (6, 6)
    done = explore(rep, n_explore, 1500 if tier == "quick" else 3000)
    rep.exhaustive = done
    seqs = DP.sequences(NAMES, NUMS, JUNK, n_validate)
    obs = common.parallel_map("observe_chunk", DP, seqs)
    collect_problems(rep, obs)
    acc = validate(rep, obs, NAMES, NUMS, JUNK, "enum")
    rep.validated += acc
    # random strings over arbitrary characters, lexed by the documented lexer
    rng = random.Random(common.seed() * 31 + 7)
    chars = list("ab1 ()[].,+->") + ["...", "->", " ", "(", ")", "[", "]"] * 2 + list("$|{}*é\t\n-:=") + ["ab", "a1", "1a", "10", "_x", "..", "...."]
    rnd = []
    seen = set()
    nrnd = 4000 if tier == "quick" else 60000
    for _ in range(nrnd):
        s = "".join(rng.choice(chars) for _ in range(rng.randint(1, 14)))
        if s in seen:
            continue
        seen.add(s)
        toks = DP.lex(s)
        rnd.append(toks)
    names = sorted({t for ts in rnd for t in ts if DP._NAME.fullmatch(t)})
    nums = sorted({t for ts in rnd for t in ts if t in ("0", "1", "2", "3", "10")})
    junk = sorted({t for ts in rnd for t in ts if t not in DP.LITS and t not in names and not t.isdigit()})
    obs2 = common.parallel_map("observe_chunk", DP, rnd)
    collect_problems(rep, obs2)
    jset = set(junk)
    for o in obs2:   # the identity of an invalid chunk is irrelevant to the specification
        o["text"] = "".join(o["toks"])
        o["toks"] = ["$" if t in jset else t for t in o["toks"]]
    known_nums = {"0", "1", "2", "3", "10"}   # Parse.tla:NumValue knows these; other numerals are only checked for totality
    obs2v = [o for o in obs2 if not any(t.isdigit() and t not in known_nums for t in o["toks"])]
    acc2 = validate(rep, obs2v, names, nums, ["$"], "rand")
    rep.validated += acc2
    foreign_text_probes(rep)
    rep.extra["enumerated_strings"] = len(seqs)
    rep.extra["random_strings"] = len(rnd)
    rep.extra["accepted_strings"] = sum(1 for o in obs if o["ok"])
    for o in [obs[len(obs) // 3], obs[len(obs) // 2], obs[-1]] + [o for o in obs if o["ok"]][-2:]:
        rep.sample({"string": "".join(o["toks"]), "outcome": "tree" if o["ok"] else o.get("cls"), "tree": o.get("tree")})
    return rep.finish()


def replay(path):
    with open(path) as f:
        v = json.load(f)
    text = v["case"].get("text")
    o = DP.observe(text)
    print(json.dumps(o)[:2000])
    if o["problems"] or v["signature"].get("kind") == "verdict-mismatch":
        print("VIOLATION property=C12 replay=%s" % path)
        return 1
    return 0
