"""C04 - generated source is a faithful, self-contained compilation of the traced graph.

Validate: Codegen.tla is an abstract machine for the emitted statements (variables -> terms): TLC symbolically
          executes the program einx generated and requires the returned term to EQUAL the term of the traced graph's
          output (C04_SameValue: a re-used name that overwrites a live value, a misplaced in-place update or a wrongly
          labelled constant changes the term), the executed assertions to be the graph's (C04_SameAsserts) and every
          call / in-place call / item update to occur exactly once (C04_EffectsOnce).  Records come from every
          compilation captured while running corpus calls on all backends, adapter and factory calls (several
          constants), and *_at operations (in-place calls).
Replay  : for the same compilations (and for synthetic graphs with shared values, an in-place call and a nested function
          with a closure) the text is executed in an EMPTY namespace plus the constants named in its header comments
          (bound by label), and its results are compared with the function einx executes (same code object) and with a
          direct node-by-node evaluation of the graph."""
import json
import os
import re
import sys
import warnings

import numpy as np

import common
import corpus
import drive_calls as DC
import drive_ir as IR
import drive_irgen as IG
import irgen

SPEC = common.SPEC
OPS = {"id": ["id"], "elementwise": ["add", "less"], "reduce": ["sum", "logsumexp"], "dot": ["dot"], "preserve": ["softmax", "flip", "sort"],
       "argfind": ["argmax"], "get_at": ["get_at"], "update_at": ["add_at", "set_at"]}


def norm(s):
    return re.sub(r"0x[0-9a-fA-F]+", "0x", str(s).replace("\n", " "))


def same(a, b):
    fa = a if isinstance(a, (tuple, list)) else [a]
    fb = b if isinstance(b, (tuple, list)) else [b]
    if len(fa) != len(fb):
        return False
    for u, v in zip(fa, fb):
        u, v = np.asarray(u), np.asarray(v)
        if u.shape != v.shape or not np.allclose(u.astype(float), v.astype(float), equal_nan=True):
            return False
    return True


_LATER = []      # (function, args, first result, label, code): re-run after all later compilations of the chunk


def check_record(rec, args, label):
    """python-side checks of one captured compilation; returns (findings, tla_record or None)"""
    findings = []
    fn, code, graph = rec["function"], rec["code"], rec["graph"]
    if not hasattr(fn, "__globals__") or not hasattr(fn, "__code__"):
        # the graph was inlined to a bare library function (InlineGraph): nothing was generated but an import
        return findings, None
    # (1) the returned text is the code that is executed: same code object as a fresh exec of the text
    consts_by_text = {}
    for k, v in fn.__globals__.items():
        if k.startswith("const"):
            consts_by_text.setdefault(norm(v)[:200], []).append(v)
    ns = {}
    header = re.findall(r"^# Constant (const\d+): (.*)$", code, re.M)
    for name, text in header:
        cands = consts_by_text.get(norm(text)[:200], [])
        if not cands:
            findings.append({"kind": "header-constant-unknown", "detail": "header lists %s: %s, but einx executes no constant that prints like that" % (name, text[:80])})
            continue
        ns[name] = cands[0]
    try:
        exec(code, ns, ns)
        f2 = ns[fn.__name__]
    except Exception as e:
        findings.append({"kind": "text-not-self-contained", "detail": "executing the text in an empty namespace (+ header constants) fails: %s: %s" % (type(e).__name__, str(e)[:120])})
        return findings, None
    if f2.__code__.co_code != fn.__code__.co_code or f2.__code__.co_consts != fn.__code__.co_consts:
        findings.append({"kind": "text-is-not-executed", "detail": "the function einx executes was not compiled from the returned text"})
    # (2) results: einx's function, the re-executed text, and the direct evaluation of the graph agree
    def run(f):
        a2 = [x.copy() if isinstance(x, np.ndarray) else x for x in args]
        try:
            with warnings.catch_warnings():
                warnings.simplefilter("ignore")
                return ("ok", f(*a2))
        except Exception as e:
            return ("exc", type(e).__name__)
    r1, r2 = run(fn), run(f2)
    if len(_LATER) < 600:
        _LATER.append((fn, run, r1, label, code))
    a3 = [x.copy() if isinstance(x, np.ndarray) else x for x in args]
    try:
        with warnings.catch_warnings():
            warnings.simplefilter("ignore")
            r3 = ("ok", IR.evaluate(graph, a3)[0])
    except NotImplementedError as e:
        r3 = None
    except Exception as e:
        r3 = ("exc", type(e).__name__)
    if r1[0] != r2[0] or (r1[0] == "ok" and not same(r1[1], r2[1])):
        findings.append({"kind": "reexecuted-text-differs", "detail": "text executed with the constants its header lists gives %s, einx's function gives %s" % (r2 if r2[0] != "ok" else "another value", r1 if r1[0] != "ok" else "a value")})
    if r3 is not None and (r1[0] != r3[0] or (r1[0] == "ok" and not same(r1[1], r3[1]))):
        findings.append({"kind": "differs-from-graph-evaluation", "detail": "generated code gives %s, node-by-node evaluation of the graph gives %s" % (r1 if r1[0] != "ok" else "a value", r3 if r3[0] != "ok" else "another value")})
    g, unsupported = IR.graph_record(graph)
    p, nested = IR.program_record(code)
    if unsupported or nested:
        return findings, None
    return findings, {"graph": g, "prog": p}


def real_chunk(items):
    import einx
    IR.install_capture()
    out = []
    for it in items:
        findings, recs, n = [], [], 0
        try:
            if "case" in it:
                case, op = it["case"], it["op"]
                rng = np.random.default_rng(it["seed"])
                ins = DC.probe_inputs(case, op, rng)
                sizes = {k: int(v) for k, v in case["L"].items() if k in set(case["desc"])}
                kw = {"shift": 1} if op == "roll" else {}
                for backend in DC.BACKENDS:
                    IR.drain()
                    try:
                        with warnings.catch_warnings():
                            warnings.simplefilter("ignore")
                            getattr(einx, op)(DC.desc_of(case), *[x.copy() for x in ins], backend=backend, **sizes, **kw)
                    except Exception:
                        pass
                    for rec in IR.drain():
                        n += 1
                        f, r = check_record(rec, ins, "einx.%s(%r, backend=%s)" % (op, DC.desc_of(case), backend))
                        for x in f:
                            x["where"] = "einx.%s(%r, backend=%s)" % (op, DC.desc_of(case), backend)
                            x["code"] = rec["code"]
                        findings.extend(f)
                        if r is not None:
                            r["meta"] = {"call": "einx.%s(%r, backend=%s)" % (op, DC.desc_of(case), backend), "code": rec["code"]}
                            recs.append(r)
            elif "irgraph" in it:
                gj = it["irgraph"]
                where = "IR.tla graph: " + IG.describe(gj)
                f, rec, code, ins = IG.run_graph(gj, seed=it["seed"])
                n += 1
                for x in f:
                    x["where"] = where
                    x["code"] = code
                    x["graph"] = {"nodes": gj["nodes"], "outs": gj["outs"], "nin": gj["nin"], "expect": gj["expect"], "needsdeps": gj["needsdeps"]}
                findings.extend(f)
                # Codegen.tla is a machine over SSA terms: adequate for graphs whose buffers are never updated in place; graphs
                # with in-place nodes are judged by IR.tla's store semantics above (values, input buffers, effect counts)
                if rec is not None:
                    f, r = check_record(rec, ins, where)
                    if any(nd["k"] in ("inpl", "upd", "set") for nd in gj["nodes"]):
                        r = None
                    for x in f:
                        x["where"] = where
                        x["code"] = rec["code"]
                    findings.extend(f)
                    if r is not None:
                        r["meta"] = {"call": where, "code": rec["code"]}
                        recs.append(r)
            else:
                for rec, args, where in special_calls(it["special"]):
                    n += 1
                    f, r = check_record(rec, args, where)
                    for x in f:
                        x["where"] = where
                        x["code"] = rec["code"]
                    findings.extend(f)
                    if r is not None:
                        r["meta"] = {"call": where, "code": rec["code"]}
                        recs.append(r)
        except Exception:
            import traceback
            findings.append({"kind": "machinery", "detail": traceback.format_exc()[-800:], "where": str(it)[:100], "code": ""})
        out.append({"findings": findings, "recs": recs, "n": n})
    # the function einx keeps (and serves from its cache) must still be the compilation of ITS text after other programs
    # have been compiled in the same process: re-run every captured function and compare with its own first result
    late = []
    for fn, run, r1, label, code in _LATER:
        r = run(fn)
        if r[0] != r1[0] or (r1[0] == "ok" and not same(r[1], r1[1])):
            late.append({"kind": "function-changes-after-later-compilations", "where": label or "compiled function", "code": code,
                         "detail": "re-running the compiled function after later compilations gives %s, right after its own compilation it gave %s" % (r if r[0] != "ok" else "another value", r1 if r1[0] != "ok" else "a value")})
    del _LATER[:]
    if late and out:
        out[-1]["findings"].extend(late[:5])
    return out


def special_calls(kind):
    """compilations with several constants, factories, adapters, synthetic graphs"""
    import einx
    import einx._src.tracer as tracer
    x = np.arange(6.0).reshape(2, 3)
    y = np.arange(3.0)
    out = []
    IR.drain()
    if kind == "adapters":
        def lin(a, b, *, scale=1.0):
            return (2 * a + 3 * b) * scale

        def fac(shape, signature=None):
            return np.ones(shape)

        def fac2(shape, **kw):
            return np.full(shape, 2.0)
        f = einx.numpy.adapt_numpylike_elementwise(lin)
        for args in ([x, y], [x, fac], [fac2, fac]):
            IR.drain()
            try:
                f("a b, b -> a b", *args, scale=2.0, a=2, b=3)
            except Exception:
                pass
            for rec in IR.drain():
                out.append((rec, args, "adapt_numpylike_elementwise(lin)('a b, b -> a b', %s)" % [type(a).__name__ for a in args]))
        g = einx.numpy.adapt_numpylike_reduce(np.sum)
        IR.drain()
        g("a [b]", x)
        for rec in IR.drain():
            out.append((rec, [x], "adapt_numpylike_reduce(np.sum)('a [b]')"))
        IR.drain()
        einx.add("a b, b", x, fac)
        for rec in IR.drain():
            out.append((rec, [x, fac], "einx.add('a b, b', x, factory(shape, signature=None))"))
    elif kind == "synthetic":
        P = tracer.signature.python
        npx = tracer.signature.numpy()
        cp = tracer.compiler.python
        # shared values, value used twice, unused value
        a = tracer.signature.classical.Tensor(None, shape=(2, 3))
        b = tracer.signature.classical.Tensor(None, shape=(2, 3))
        s = npx.add(a, b)
        t = npx.multiply(s, s)
        u = npx.subtract(t, s)
        g = tracer.Graph(inputs=[a, b], output=(u, s), name="op")
        cp.compile(g, return_code=True)
        for rec in IR.drain():
            out.append((rec, [x, x + 1], "synthetic: shared values"))
        # in-place call followed by a read, and a read that must precede it
        a = tracer.signature.classical.Tensor(None, shape=(4,))
        i = tracer.signature.classical.Tensor(None, shape=(2,))
        v = tracer.signature.classical.Tensor(None, shape=(2,))
        npm = P.import_("numpy", as_="np")
        before = P.call(npm.multiply, [a, 2.0])
        with tracer.depend_on(before):        # the tracer's contract: readers of the old value are dependencies of the update
            a2 = P.call_inplace(a, npm.put, [a, i, v])
        after = P.call(npm.add, [a2, before])
        g = tracer.Graph(inputs=[a, i, v], output=after, name="op")
        cp.compile(g, return_code=True)
        for rec in IR.drain():
            out.append((rec, [np.arange(4.0), np.array([0, 2]), np.array([10.0, 20.0])], "synthetic: in-place call between two reads"))
        # nested function with a closure over an outer value that is last used before the nested function is called
        def build(a):
            npm = P.import_("numpy", as_="np")
            v0 = P.call(npm.add, [a, 1.0])
            w = P.call(npm.multiply, [v0, 2.0])

            def innerf(z):
                return P.call(npm.add, [z, v0])
            inner = P.function(innerf, args=[P.Value(None)])
            c2 = P.call(npm.subtract, [w, 3.0])
            r = P.call(P.constant(lambda f, arg: f(arg)), [inner, c2])
            return r
        a = tracer.signature.classical.Tensor(None, shape=(3,))
        g = tracer.Graph(inputs=[a], output=build(a), name="op")
        try:
            cp.compile(g, return_code=True)
            for rec in IR.drain():
                out.append((rec, [np.arange(3.0)], "synthetic: nested function with closure"))
        except Exception as e:
            pass
    return out


def validate(rep, recs):
    d = common.workdir("c04")
    nsh = min(16, max(1, len(recs) // 250))
    shards = [recs[i::nsh] for i in range(nsh)]
    import concurrent.futures as cf

    def one(i):
        path = os.path.join(d, "recs_%d.ndjson" % i)
        with open(path, "w") as f:
            for r in shards[i]:
                f.write(json.dumps({"graph": r["graph"], "prog": r["prog"]}) + "\n")
        cfg = common.write_cfg(os.path.join(d, "t_%d.cfg" % i), spec="Spec", constraints=["Chk"])
        return common.run_tlc(os.path.join(SPEC, "Codegen.tla"), cfg, workers=1, env={"TRACE_FILE": path})
    with cf.ThreadPoolExecutor(nsh) as ex:
        results = list(ex.map(one, range(nsh)))
    ok, bad = 0, []
    for i, res in enumerate(results):
        rep.add_tlc("Codegen.tla shard %d (%d compilations)" % (i, len(shards[i])), res)
        if res.distinct != len(shards[i]):
            raise common.MachineryError("Codegen.tla consumed %d of %d records\n%s" % (res.distinct, len(shards[i]), res.out[-2500:]))
        flagged = set()
        for line in res.out.splitlines():
            for tag in ("VALUE", "ASSERTS", "EFFECTS"):
                if line.startswith('<<"%s"' % tag):
                    t = int(line.strip("<>").split(", ")[1])
                    bad.append((tag, shards[i][t - 1]))
                    flagged.add(t)
        ok += len(shards[i]) - len(flagged)
    return ok, bad


def run(tier):
    rep = common.Report("C04", tier)
    rep.rule = ("every compilation captured while running corpus calls (all backends), adapter / factory calls with several constants, *_at operations (in-place calls) and "
                "synthetic graphs (shared values, in-place call between reads, nested function with closure); non-trivial = programs with an in-place statement, an assertion, a constant or a re-used variable name")
    rep.assumptions = ["numpy code generator output is straight-line (C17); nested function definitions are checked by execution only, not by the symbolic machine",
                       "an expression statement is an in-place call that updates its first argument (np.put / ufunc.at)"]
    import suite
    sh = suite.start()       # the repository's own tests run under the compile recorder while the rest of the check works
    specs = corpus.quick_specs() if tier == "quick" else corpus.thorough_specs()
    cases = corpus.generate(rep, specs)
    if tier == "thorough":
        cases = corpus.cap(cases, 40000)
    rep.exhaustive = True
    if tier == "quick":
        keep = {"elementwise": 16, "update_at": 16, "get_at": 8, "id": 6, "preserve": 4, "argfind": 4, "reduce": 2}
        cases = [c for i, c in enumerate(cases) if i % keep.get(c["fam"], 1) == 0]
    items = [{"case": c, "op": OPS[c["fam"]][i % len(OPS[c["fam"]])], "seed": i} for i, c in enumerate(cases)]
    items += [{"special": "adapters"}, {"special": "synthetic"}]
    # graphs over the IR node types: runs of the tracer API enumerated / sampled by TLC from IR.tla, with their meaning
    graphs = irgen.generate(rep, tier)
    irgen.vacuity(rep)
    wf = [g for g in graphs if g["wf"]]
    rep.extra["ir_graphs"] = {"exported": len(graphs), "well_formed": len(wf), "ill_formed_skipped": len(graphs) - len(wf),
                              "need_declared_dependencies": sum(1 for g in wf if g["needsdeps"]),
                              "with_in_place_node": sum(1 for g in wf if any(n["k"] in ("inpl", "upd", "set") for n in g["nodes"])),
                              "with_nested_function": sum(1 for g in wf if any(n["k"] == "lam" for n in g["nodes"]))}
    if tier == "quick" and len(wf) > 9000:
        step = len(wf) / 9000.0
        wf = [wf[int(i * step)] for i in range(9000)]
    items += [{"irgraph": g, "seed": common.seed() * 7919 + i} for i, g in enumerate(wf)]
    results = common.parallel_map("real_chunk", sys.modules[__name__], items)
    recs = []
    for it, r in zip(items, results):
        rep.evaluations += r["n"]
        rep.replayed += r["n"]
        recs.extend(r["recs"])
        for f in r["findings"]:
            if f["kind"] == "machinery":
                raise common.MachineryError(f["detail"])
            if "graph" in f:
                kinds = sorted({n["k"] for n in f["graph"]["nodes"]})
                rep.violation({"kind": f["kind"], "where": "IR.tla graph", "needsdeps": f["graph"]["needsdeps"], "node_kinds": kinds},
                              {"where": f["where"], "code": f["code"], "irgraph": f["graph"]}, "%s: %s\n%s" % (f["where"], f["detail"], f["code"][:700]))
                continue
            rep.violation({"kind": f["kind"], "where": f["where"][:60]}, {"where": f["where"], "code": f["code"]}, "%s: %s\n%s" % (f["where"], f["detail"], f["code"][:700]))
    # every compilation the repository's own test suite performs is validated by the symbolic machine as well
    srecs = suite.finish(sh, rep, "codegen")
    rep.extra["compilations_recorded_from_repository_tests"] = len(srecs)
    recs.extend(srecs)
    ok, bad = validate(rep, recs)
    rep.validated += ok
    for r in recs:
        c = r["meta"]["code"]
        if "assert " in c or "# Constant" in c or re.search(r"^\s+np\.\w+(\.\w+)?\(", c, re.M):
            rep.nontriv(c)
    for tag, r in bad[:20]:
        rep.violation({"kind": "symbolic-" + tag, "where": r["meta"]["call"][:60]}, {"record": {"graph": r["graph"], "prog": r["prog"]}, "code": r["meta"]["code"]},
                      "%s: the emitted program does not denote the traced graph (%s)\n%s" % (r["meta"]["call"], {"VALUE": "returned term differs", "ASSERTS": "assertions differ", "EFFECTS": "an effect is duplicated or missing"}[tag], r["meta"]["code"][:800]))
    if recs:
        rep.sample({"call": recs[0]["meta"]["call"], "code": recs[0]["meta"]["code"], "graph_term": recs[0]["graph"]["out"]})
        ig = [r for r in recs if r["meta"]["call"].startswith("IR.tla") and "h!" in r["meta"]["call"]]
        if ig:
            rep.sample({"call": ig[len(ig) // 2]["meta"]["call"], "code": ig[len(ig) // 2]["meta"]["code"]})
        sp = [r for r in recs if "synthetic" in r["meta"]["call"] or "adapt" in r["meta"]["call"]]
        if sp:
            rep.sample({"call": sp[0]["meta"]["call"], "code": sp[0]["meta"]["code"]})
    rep.extra["special_compilations"] = sum(r["n"] for it, r in zip(items, results) if "special" in it)
    return rep.finish()


def replay(path):
    with open(path) as f:
        v = json.load(f)
    if "irgraph" in v.get("case", {}):
        gj = v["case"]["irgraph"]
        f, rec, code, ins = IG.run_graph(gj)
        print(IG.describe(gj))
        print(code)
        print(f)
        if f:
            print("VIOLATION property=C04 replay=%s" % path)
            return 1
        return 0
    print(json.dumps(v["case"], indent=1)[:3000])
    return 1
