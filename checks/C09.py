"""C09 - arguments are never modified (except the documented in-place *_at target).

Validate: Alias.tla is a may-alias / may-write analysis of straight-line programs: parameters are the caller's buffers,
          view-producing functions propagate aliasing, np.put / ufunc.at / item assignment / out= / surplus positional
          ufunc operands write.  For every corpus case, operation and backend the generated source (graph=True) is turned
          into a program record and TLC decides WritesOnlyTarget (written parameters are a subset of {first tensor} for
          set_at/add_at/subtract_at, empty otherwise) - for every view/copy resolution, not only the layouts that ran.
Replay  : the same calls are executed with every argument in four memory layouts (contiguous, transposed view, broadcast
          view with zero strides, read-only) and bytes / shape / dtype / strides / flags of every argument, and the
          keyword containers, are compared before and after; also for graph=True, solve_axes, solve_shapes, matches."""
import copy
import json
import os
import sys
import warnings

import numpy as np

import astform
import common
import corpus
import drive_calls as DC

SPEC = common.SPEC
OPS = {"id": ["id"], "elementwise": ["subtract", "logical_and", "less", "divide"], "reduce": ["sum", "logsumexp", "std"], "dot": ["dot"],
       "preserve": ["softmax", "log_softmax", "flip", "sort", "roll"], "argfind": ["argmax"], "get_at": ["get_at"], "update_at": ["set_at", "add_at", "subtract_at"]}


def layouts(x, rng):
    out = [("contiguous", np.ascontiguousarray(x).copy())]
    if x.ndim >= 2:
        t = np.ascontiguousarray(np.transpose(x)).copy()
        out.append(("transposed-view", np.transpose(t)))
    if x.ndim >= 1 and x.size > 1:
        b = np.broadcast_to(x.reshape(-1)[:1].copy(), x.shape)       # zero strides, read-only by construction
        out.append(("broadcast-view", b))
    r = np.ascontiguousarray(x).copy()
    r.setflags(write=False)
    out.append(("read-only", r))
    return out


def snapshot(a):
    return (a.tobytes(), a.shape, a.dtype.str, a.strides, a.flags.writeable, a.flags.c_contiguous)


def run_item(it):
    import einx
    case, ops, seed = it["case"], it["ops"], it["seed"]
    rng = np.random.default_rng(seed)
    findings, recs, calls = [], [], 0
    desc = DC.desc_of(case)
    sizes = {n: int(v) for n, v in case["L"].items() if n in set(case["desc"])}
    for op in ops:
        if op in ("sort", "argsort") and len(case["ins"][0]["brshape"]) != 1:
            continue
        kwobj = {"shift": [1]} if op == "roll" else {}
        ins = DC.probe_inputs(case, op, rng)
        target_ok = {0} if case["fam"] == "update_at" else set()
        for backend in DC.BACKENDS:
            # static: the generated program
            try:
                gargs = [x.copy() for x in ins]
                gbefore = [snapshot(a) for a in gargs]
                with warnings.catch_warnings():
                    warnings.simplefilter("ignore")
                    code = getattr(einx, op)(desc, *gargs, backend=backend, graph=True, **sizes, **kwobj)
                calls += 1
                # a graph=True request is a pure code query: nothing is executed, not even the documented in-place update
                if gbefore != [snapshot(a) for a in gargs]:
                    findings.append({"kind": "graph-request-modified-argument", "op": op, "backend": backend, "arg": [j for j in range(len(gargs)) if gbefore[j] != snapshot(gargs[j])][0], "layout": "contiguous",
                                     "detail": "graph=True changed an argument (also the *_at target is read-only for a code query)"})
                prog = astform.program(code)
                recs.append({"params": prog["params"], "allowed": [prog["params"][0]] if target_ok and prog["params"] else [], "stmts": prog["stmts"],
                             "meta": {"desc": desc, "op": op, "backend": backend, "code": code}})
            except einx.errors.OperationNotSupportedError:
                continue
            except Exception:
                continue
            # dynamic: one argument at a time in another layout
            for k in range(len(ins)):
                for lname, arr in layouts(ins[k], rng):
                    if k in target_ok and lname in ("broadcast-view", "read-only"):
                        continue     # the documented in-place target must be writable
                    args = [x.copy() for x in ins]
                    args[k] = arr
                    if lname == "broadcast-view" and case["fam"] in ("get_at", "update_at") and 0 < k < len(ins) - (1 if case["fam"] == "update_at" else 0):
                        pass
                    before = [snapshot(a) for a in args]
                    kw2 = copy.deepcopy(kwobj)
                    sz2 = dict(sizes)
                    try:
                        with warnings.catch_warnings():
                            warnings.simplefilter("ignore")
                            getattr(einx, op)(desc, *args, backend=backend, **sz2, **kw2)
                        calls += 1
                    except Exception as e:
                        calls += 1
                        if lname in ("read-only", "transposed-view", "broadcast-view") and "read-only" in str(e):
                            findings.append({"kind": "write-to-readonly-argument", "op": op, "backend": backend, "arg": k, "layout": lname, "detail": type(e).__name__ + ": " + str(e)[-160:]})
                        continue
                    after = [snapshot(a) for a in args]
                    for j in range(len(args)):
                        if j in target_ok:
                            if before[j][1:] != after[j][1:]:
                                findings.append({"kind": "target-metadata-changed", "op": op, "backend": backend, "arg": j, "layout": lname, "detail": "shape/dtype/strides/flags of the in-place target changed"})
                            continue
                        if before[j] != after[j]:
                            findings.append({"kind": "argument-modified", "op": op, "backend": backend, "arg": j, "layout": lname if j == k else "contiguous",
                                             "detail": "argument %d (%s) changed: contents %s, metadata %s" % (j, lname if j == k else "contiguous", before[j][0] != after[j][0], before[j][1:] != after[j][1:])})
                    if kw2 != kwobj or sz2 != sizes:
                        findings.append({"kind": "keyword-container-modified", "op": op, "backend": backend, "arg": -1, "layout": lname, "detail": "sizes / options objects changed"})
            # sizes and options handed over as numpy arrays: they are read-only to einx like every other argument
            szarr = {n: np.array(v) for n, v in sizes.items()}
            kwarr = {n: np.array(v) for n, v in kwobj.items()}
            before = {n: snapshot(a) for n, a in list(szarr.items()) + list(kwarr.items())}
            for graph in (True, False):
                try:
                    with warnings.catch_warnings():
                        warnings.simplefilter("ignore")
                        getattr(einx, op)(desc, *[x.copy() for x in ins], backend=backend, **szarr, **kwarr, **({"graph": True} if graph else {}))
                except Exception:
                    pass
                calls += 1
            after = {n: snapshot(a) for n, a in list(szarr.items()) + list(kwarr.items())}
            if before != after:
                findings.append({"kind": "keyword-array-modified", "op": op, "backend": backend, "arg": -1, "layout": "contiguous",
                                 "detail": "a size / option passed as numpy array changed (contents or flags): %s" % sorted(n for n in before if before[n] != after[n])})
        # solve_* / matches never touch tensors
        try:
            args = [x.copy() for x in ins]
            before = [snapshot(a) for a in args]
            d2 = ", ".join("".join(t) for t in case["intoks"])
            for f in (einx.solve_axes, einx.solve_shapes, einx.matches):
                try:
                    f(d2, *args, **sizes)
                except Exception:
                    pass
            calls += 3
            if before != [snapshot(a) for a in args]:
                findings.append({"kind": "argument-modified", "op": "solve", "backend": "-", "arg": -1, "layout": "contiguous", "detail": "solve_*/matches changed a tensor"})
        except Exception:
            pass
    return findings, recs, calls


def run_chunk(items):
    out = []
    for it in items:
        try:
            f, r, c = run_item(it)
        except Exception:
            import traceback
            f, r, c = [{"kind": "machinery", "detail": traceback.format_exc()[-700:], "op": "-", "backend": "-", "arg": -1, "layout": "-"}], [], 0
        out.append({"findings": f, "recs": r, "calls": c})
    return out


def validate(rep, recs):
    d = common.workdir("c09")
    nsh = min(16, max(1, len(recs) // 400))
    shards = [recs[i::nsh] for i in range(nsh)]
    import concurrent.futures as cf

    def one(i):
        path = os.path.join(d, "recs_%d.ndjson" % i)
        with open(path, "w") as f:
            for r in shards[i]:
                f.write(json.dumps({k: r[k] for k in ("params", "allowed", "stmts")}) + "\n")
        cfg = common.write_cfg(os.path.join(d, "t_%d.cfg" % i), spec="Spec", constraints=["Chk"])
        return common.run_tlc(os.path.join(SPEC, "Alias.tla"), cfg, workers=1, env={"TRACE_FILE": path})
    with cf.ThreadPoolExecutor(nsh) as ex:
        results = list(ex.map(one, range(nsh)))
    ok, bad = 0, []
    for i, res in enumerate(results):
        rep.add_tlc("Alias.tla shard %d (%d generated programs)" % (i, len(shards[i])), res)
        if res.distinct != len(shards[i]):
            raise common.MachineryError("Alias.tla consumed %d of %d records\n%s" % (res.distinct, len(shards[i]), res.out[-1500:]))
        flagged = 0
        for line in res.out.splitlines():
            if line.startswith('<<"WRITES"'):
                t = int(line.strip("<>").split(", ")[1])
                bad.append((shards[i][t - 1], line))
                flagged += 1
        ok += len(shards[i]) - flagged
    return ok, bad


def run(tier):
    rep = common.Report("C09", tier)
    rep.rule = ("corpus cases x operations x backends: one generated program each (static alias analysis by TLC) and executions with each argument in "
                "{contiguous, transposed view, broadcast view, read-only}; non-trivial = executions with a non-contiguous or read-only argument")
    rep.assumptions = ["numpy backends", "which numpy functions may return views is part of the trusted base (Alias.tla:ViewFns); functions not listed return fresh buffers",
                       "broadcast views repeat one value (the layout, not the values, is what is probed)"]
    specs = corpus.quick_specs() if tier == "quick" else corpus.thorough_specs()
    cases = corpus.generate(rep, specs)
    if tier == "thorough":
        cases = corpus.cap(cases, 30000)
    rep.exhaustive = True
    if tier == "quick":
        keep = {"elementwise": 24, "update_at": 40, "get_at": 12, "id": 12, "preserve": 6, "argfind": 8, "reduce": 3}
        cases = [c for i, c in enumerate(cases) if i % keep.get(c["fam"], 1) == 0]
    items = [{"case": c, "seed": common.seed() * 13 + i, "ops": OPS[c["fam"]] if tier == "thorough" else [OPS[c["fam"]][i % len(OPS[c["fam"]])], OPS[c["fam"]][(i + 1) % len(OPS[c["fam"]])]]}
             for i, c in enumerate(cases)]
    # three-operand elementwise calls (surplus positional ufunc operands are numpy's `out`)
    results = common.parallel_map("run_chunk", sys.modules[__name__], items)
    recs = []
    for it, r in zip(items, results):
        rep.evaluations += r["calls"]
        rep.replayed += 1
        recs.extend(r["recs"])
        rep.nontriv(DC.desc_of(it["case"]) + json.dumps(it["case"]["L"], sort_keys=True))
        for f in r["findings"]:
            if f["kind"] == "machinery":
                raise common.MachineryError(f["detail"])
            rep.violation({"kind": f["kind"], "op": f["op"], "backend": f["backend"], "arg": f["arg"], "layout": f["layout"]}, {"item": it},
                          "einx.%s(%r, backend=%s): %s" % (f["op"], DC.desc_of(it["case"]), f["backend"], f["detail"]))
    recs += nary_records(rep)
    ok, bad = validate(rep, recs)
    rep.validated += ok
    for r, line in bad:
        m = r["meta"]
        rep.violation({"kind": "program-may-write-argument", "op": m["op"], "backend": m["backend"]}, {"meta": m, "program": {k: r[k] for k in ("params", "allowed", "stmts")}},
                      "einx.%s(%r, backend=%s): the generated code may write a caller-owned buffer that is not the in-place target: %s\n%s" % (m["op"], m["desc"], m["backend"], line, m["code"][:800]))
    if recs:
        rep.sample({"program": {k: recs[0][k] for k in ("params", "allowed", "stmts")}, "code": recs[0]["meta"]["code"]})
    return rep.finish()


def nary_records(rep):
    """elementwise calls with three operands, all backends: static records + dynamic check"""
    import einx
    recs = []
    x = [np.arange(6.0).reshape(2, 3) + k for k in range(3)]
    # every public einx callable is tried as an operation on two and three tensors (calls that are rejected are fine):
    # no list of operation names to keep up to date
    skip = {"solve", "solve_axes", "solve_shapes", "matches", "check", "set_at", "add_at", "subtract_at"}
    names = sorted(n for n in dir(einx) if not n.startswith("_") and n not in skip and callable(getattr(einx, n)) and not isinstance(getattr(einx, n), type))
    rep.extra["public_callables_tried_with_surplus_operands"] = len(names)
    for op in names:
        for desc in ("a b, a b, a b", "a b, b, a b -> a b", "a b, a b, a b -> b a", "a b, a b", "a b, a b -> a b"):
            for backend in DC.BACKENDS:
                args = [a.copy() for a in x][:desc.split("->")[0].count(",") + 1]
                if "b, a b ->" in desc and desc.startswith("a b, b,"):
                    args[1] = args[1][0].copy()
                before = [a.tobytes() for a in args]
                try:
                    with warnings.catch_warnings():
                        warnings.simplefilter("ignore")
                        code = getattr(einx, op)(desc, *args, backend=backend, graph=True)
                        prog = astform.program(code)
                        recs.append({"params": prog["params"], "allowed": [], "stmts": prog["stmts"], "meta": {"desc": desc, "op": op, "backend": backend, "code": code}})
                        getattr(einx, op)(desc, *args, backend=backend)
                except Exception:
                    continue
                rep.evaluations += 1
                if before != [a.tobytes() for a in args]:
                    rep.violation({"kind": "argument-modified", "op": op, "backend": backend, "arg": -1, "layout": "contiguous", "nary": True}, {"desc": desc, "op": op, "backend": backend},
                                  "einx.%s(%r, backend=%s) with three operands changed one of its arguments" % (op, desc, backend))
    return recs


def replay(path):
    with open(path) as f:
        v = json.load(f)
    it = v["case"].get("item")
    if it:
        f2, r, c = run_item(it)
        print(f2[:3])
        if f2:
            print("VIOLATION property=C09 replay=%s" % path)
            return 1
        return 0
    print(json.dumps(v, indent=1)[:3000])
    return 1
