"""C15 - adapted user functions follow loop-notation semantics; their outputs are checked.

Validate: Adapter.tla specifies what an adapted function is handed (adapt_numpylike_reduce: whole decomposed tensor with
          un-bracketed unit axes squeezed + axis = positions of the bracketed leaves; adapt_numpylike_elementwise: equal-rank
          broadcast-compatible tensors; keyword-only parameters forwarded verbatim, exactly one call).  The leaves come
          from TLC (Cases.tla).  Every real call is recorded (shapes, axis, keyword names) and TLC decides acceptance.
Replay  : corpus reduce / elementwise cases with ORDER-SENSITIVE user functions (position-weighted sum; 2x+3y); result
          compared with the loop-notation denotation executed with the same Python function; repeated calls with
          different keyword values (cache hit must forward the new value); a keyword-only name used as axis name must
          raise SemanticError; wrong return type / arity / shape must make the call fail."""
import json
import os
import sys
import warnings

import numpy as np

import common
import corpus
import drive_calls as DC
import loopref

SPEC = common.SPEC


NONE_MEANS = 7.0      # an explicit scale=None is a value of its own for the wrapped functions (not their default 1.0)


def wsum_sub(sub, scale):
    flat = np.asarray(sub, dtype=np.float64).reshape(-1)
    return float(np.dot(flat, np.arange(1, flat.size + 1, dtype=np.float64)) * scale)


def make_reduce(rec, mode="good"):
    def wsum(x, axis, *, scale=1.0, bounds=(0, 0)):
        rec.append({"e": "call", "shapes": [[int(s) for s in x.shape]], "axis": [int(a) for a in (axis if isinstance(axis, (tuple, list)) else [axis])], "kw": ["scale"], "kwval": repr(scale), "bounds": repr(bounds)})
        scale = NONE_MEANS if scale is None else scale
        ax = tuple(axis) if isinstance(axis, (tuple, list)) else (axis,)
        rest = [i for i in range(x.ndim) if i not in ax]
        y = np.transpose(x, rest + list(ax)).reshape([x.shape[i] for i in rest] + [-1])
        r = y @ np.arange(1, y.shape[-1] + 1, dtype=np.float64) * scale
        if mode == "wrongshape":
            return np.zeros(tuple(s + 1 for s in r.shape) or (2,))
        if mode == "wrongtype":
            return r.tolist()
        if mode == "tuple":
            return (r, r)
        return r
    return wsum


def make_elementwise(rec, mode="good"):
    def lin(x, y, *, scale=1.0, bounds=(0, 0)):
        rec.append({"e": "call", "shapes": [[int(s) for s in np.shape(x)], [int(s) for s in np.shape(y)]], "axis": [], "kw": ["scale"], "kwval": repr(scale), "bounds": repr(bounds)})
        scale = NONE_MEANS if scale is None else scale
        r = (2.0 * x + 3.0 * y) * scale
        if mode == "wrongshape":
            return np.zeros(tuple(s + 1 for s in np.shape(r)) or (2,))
        if mode == "wrongtype":
            return "nope"
        return r
    return lin


def reference(case, ins, scale):
    flat = [np.asarray(x, dtype=np.float64).reshape(-1) for x in ins]
    out = np.zeros(int(np.prod(case["outs"][0]["shape"])) if case["outs"][0]["shape"] else 1)
    for g in case["groups"]:
        if case["fam"] == "reduce":
            out[g["outs"][0]] = wsum_sub(flat[0][g["ins"][0]].reshape(case["ins"][0]["brshape"]), scale)
        else:
            out[g["outs"][0]] = (2.0 * flat[0][g["ins"][0]] + 3.0 * flat[1][g["ins"][1]]) * scale
    return out.reshape(case["outs"][0]["shape"])


def run_item(it):
    import einx
    case, seed = it["case"], it["seed"]
    rng = np.random.default_rng(seed)
    ins = [x.astype(np.float64) for x in DC.probe_inputs(case, "sum" if case["fam"] == "reduce" else "add", rng)]
    desc = DC.desc_of(case)
    sizes = {n: int(v) for n, v in case["L"].items() if n in set(case["desc"])}
    traces, findings, calls = [], [], 0
    adapter = "reduce" if case["fam"] == "reduce" else "elementwise"
    rec = []
    fn = make_reduce(rec) if adapter == "reduce" else make_elementwise(rec)
    adapt = einx.numpy.adapt_numpylike_reduce if adapter == "reduce" else einx.numpy.adapt_numpylike_elementwise
    with warnings.catch_warnings():
        warnings.simplefilter("ignore")
        op = adapt(fn)
        for label, scale in (("first", 2.0), ("repeat", 2.0), ("new-keyword-value", 5.0), ("none-keyword-value", None), ("int-keyword-value", 2)):
            del rec[:]
            ok, exc, res = True, None, None
            try:
                res = op(desc, *[x.copy() for x in ins], scale=scale, **sizes)
            except Exception as e:
                ok, exc = False, type(e).__name__ + ": " + str(e)[:120]
            calls += 1
            traces.append({"adapter": adapter, "leaves": [t["leaves"] for t in case["ins"]], "outleaves": case["outs"][0]["leaves"], "kwonly": ["scale"],
                           "events": list(rec) + [{"e": "end", "ok": ok}], "desc": desc, "label": label})
            if not ok:
                findings.append({"kind": "adapted-call-fails", "detail": "%s call raised %s" % (label, exc)})
                continue
            if rec and rec[-1].get("kwval") != repr(scale):
                findings.append({"kind": "keyword-not-forwarded-verbatim", "detail": "%s call: scale=%r was passed, the function received scale=%s" % (label, scale, rec[-1].get("kwval"))})
            exp = reference(case, ins, NONE_MEANS if scale is None else scale)
            got = np.asarray(res)
            if got.shape != exp.shape or not np.allclose(got, exp, rtol=1e-9):
                findings.append({"kind": "adapted-result-differs", "detail": "%s call (scale=%s): result differs from the loop notation with the same function: got %s expected %s" % (
                    label, scale, got.reshape(-1)[:5].tolist(), exp.reshape(-1)[:5].tolist())})
        # sequence-valued options that compare equal but are not the same value: each call must hand over exactly its own
        for bounds in ((0, 20), (0, 20.0), [0, 20], (0, 20)):
            del rec[:]
            try:
                op(desc, *[x.copy() for x in ins], scale=2.0, bounds=bounds, **sizes)
                calls += 1
                if rec and rec[-1].get("bounds") != repr(bounds):
                    findings.append({"kind": "keyword-not-forwarded-verbatim", "passed_type": type(bounds).__name__, "detail": "bounds=%r was passed, the function received bounds=%s" % (bounds, rec[-1].get("bounds"))})
            except Exception as e:
                calls += 1
                findings.append({"kind": "adapted-call-fails", "detail": "call with bounds=%r raised %s" % (bounds, type(e).__name__)})
        # wrong outputs: with a keyword option and without any (the traced graph is then a bare wrapper around the function)
        for mode in (["wrongshape", "wrongtype", "tuple"] if adapter == "reduce" else ["wrongshape", "wrongtype"]):
            for kwopt in ({"scale": 1.0}, {}):
                rec2 = []
                bad = adapt(make_reduce(rec2, mode) if adapter == "reduce" else make_elementwise(rec2, mode))
                try:
                    r = bad(desc, *[x.copy() for x in ins], **kwopt, **sizes)
                    calls += 1
                    if mode == "wrongshape" and np.asarray(r).shape == tuple(case["outs"][0]["shape"]):
                        continue     # (a shape that happens to be right after all)
                    findings.append({"kind": "bad-output-accepted", "detail": "user function returning %s produced a result %s (%s keyword option)" % (mode, type(r).__name__, "with a" if kwopt else "without")})
                except Exception:
                    calls += 1
        # a keyword-only parameter name used as an axis name
        names = [t for t in case["desc"] if t.isalpha()]
        if names:
            n0 = names[0]
            src = "def f(x%s, *, %s=1):\n    return x\n" % (", axis" if adapter == "reduce" else ", y", n0)
            ns = {}
            exec(src, ns)
            try:
                adapt(ns["f"])(desc, *[x.copy() for x in ins], **sizes)
                findings.append({"kind": "kwonly-name-captured", "detail": "axis name %r equals a keyword-only parameter of the function but the call was accepted" % n0})
            except einx.errors.SemanticError:
                pass
            except Exception as e:
                findings.append({"kind": "kwonly-name-wrong-error", "detail": "axis name %r equals a keyword-only parameter: expected SemanticError, got %s" % (n0, type(e).__name__)})
            calls += 1
    return traces, findings, calls


def run_chunk(items):
    out = []
    for it in items:
        try:
            t, f, n = run_item(it)
        except Exception:
            import traceback
            t, f, n = [], [{"kind": "machinery", "detail": traceback.format_exc()[-700:]}], 0
        out.append({"traces": t, "findings": f, "calls": n})
    return out


def validate(rep, traces, tag):
    d = common.workdir("c15")
    path = os.path.join(d, "traces_%s.ndjson" % tag)
    with open(path, "w") as f:
        for t in traces:
            f.write(json.dumps({k: t[k] for k in ("adapter", "leaves", "outleaves", "kwonly", "events")}) + "\n")
    cfg = common.write_cfg(os.path.join(d, "trace.cfg"), spec="Spec", postcondition="TraceAccepted")
    res = common.run_tlc(os.path.join(SPEC, "Adapter.tla"), cfg, workers=1, env={"TRACE_FILE": path})
    rep.add_tlc("Adapter.tla trace validation %s (%d recorded calls)" % (tag, len(traces)), res)
    acc, rej = None, []
    for line in res.out.splitlines():
        if line.startswith('<<"ACCEPTED"'):
            acc = int(line.strip("<>").split(", ")[1])
        if line.startswith('<<"REJECT"'):
            p = line.strip("<>").split(", ")
            rej.append((int(p[1]), int(p[2])))
    if acc is None:
        raise common.MachineryError("no verdict from Adapter.tla\n" + res.out[-2500:])
    return acc, rej


def run(tier):
    rep = common.Report("C15", tier)
    rep.rule = ("reduce and elementwise corpus cases x {first call, cached repeat, cached repeat with another keyword value, wrong shape / type / arity, keyword-only name as axis}; "
                "non-trivial = case has a flattened axis, a unit axis, several bracketed axes or permuted output")
    rep.assumptions = ["only the numpy adapters are runnable (adapt_with_vmap needs a framework with vmap; none is importable) - declared uncovered",
                       "user functions: position-weighted sum (order-sensitive) and 2x+3y"]
    # square operands (all lengths equal): a skipped alignment transposes nothing visible in the shapes
    lens = (corpus.LENS_QUICK + [(2, 2, 2, 2, 2, 2)]) if tier == "quick" else corpus.LENS_THOROUGH
    cases = corpus.generate(rep, [("reduce", ["a", "b", "c"], lens, 3, 3), ("elementwise", ["a", "b"], lens, 2, 2)])
    rep.exhaustive = True
    cases = [c for c in cases if not (c["fam"] == "elementwise" and any("d" in t for t in c["outtoks"][0]))] if False else cases
    if tier == "quick":
        cases = [c for i, c in enumerate(cases) if c["fam"] == "reduce" or i % 12 == 0]
    items = [{"case": c, "seed": common.seed() * 7 + i} for i, c in enumerate(cases)]
    results = common.parallel_map("run_chunk", sys.modules[__name__], items)
    traces = []
    for it, r in zip(items, results):
        rep.evaluations += r["calls"]
        traces.extend(r["traces"])
        if DC.features(it["case"]):
            rep.nontriv(DC.desc_of(it["case"]) + json.dumps(it["case"]["L"], sort_keys=True))
        for f in r["findings"]:
            if f["kind"] == "machinery":
                raise common.MachineryError(f["detail"])
            rep.violation({"kind": f["kind"], "passed_type": f.get("passed_type", "-"), "fam": it["case"]["fam"], "fn_output_0d": all(l["br"] or l["len"] == 1 for t in it["case"]["ins"] for l in t["leaves"]), "features": DC.features(it["case"])}, {"item": it},
                          "adapted %s %r lengths %s: %s" % (it["case"]["fam"], DC.desc_of(it["case"]), {k: v for k, v in it["case"]["L"].items() if k in set(it["case"]["desc"])}, f["detail"]))
    acc, rej = validate(rep, traces, "real")
    rep.validated += acc
    for (t, l) in rej[:10]:
        tr = traces[t - 1]
        ev = tr["events"][l - 1] if l - 1 < len(tr["events"]) else None
        rep.violation({"kind": "adapter-trace-rejected", "adapter": tr["adapter"], "label": tr["label"]}, {"trace": tr, "first_unmatched_event": l},
                      "adapted %s %r [%s]: the arguments the user function received are not what Adapter.tla prescribes: %s ; leaves %s" % (tr["adapter"], tr["desc"], tr["label"], ev, tr["leaves"]))
    import copy
    bad = []
    for t in traces[:80]:
        t2 = copy.deepcopy(t)
        c = [e for e in t2["events"] if e["e"] == "call"]
        if c and c[0]["shapes"][0]:
            c[0]["shapes"][0][0] += 1
            bad.append(t2)
    if bad:
        acc2, rej2 = validate(rep, bad, "negctl")
        if len(rej2) != len(bad):
            raise common.MachineryError("negative control failed: %d corrupted, %d rejected" % (len(bad), len(rej2)))
        rep.extra["negative_control"] = {"corrupted": len(bad), "rejected": len(rej2)}
    rep.sample({k: traces[0][k] for k in ("adapter", "desc", "leaves", "events")})
    rep.sample({k: traces[-1][k] for k in ("adapter", "desc", "leaves", "events")})
    return rep.finish()


def replay(path):
    with open(path) as f:
        v = json.load(f)
    it = v["case"].get("item")
    if it:
        t, f2, n = run_item(it)
        print(f2)
        if f2:
            print("VIOLATION property=C15 replay=%s" % path)
            return 1
        return 0
    print(json.dumps(v, indent=1)[:3000])
    return 1
