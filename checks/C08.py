"""C08 - results depend on axis names / positions only as the notation says (equivariance).

Explore : Equiv.tla defines the transformations (consistent renaming, permuting un-bracketed dimensions of an input
          together with the tensor, permuting the output's dimensions, parenthesising adjacent axes on tensor and
          expression) and TLC checks on every case of the corpus that the loop-notation denotation satisfies the
          corresponding equation (C08_Equivariance) - the design-level theorem.
Replay  : TLC exports every (case, transformed case, data transformation); the real einx is run on both with related
          tensors and the two REAL results are compared with each other (not with the denotation), for operations of
          the family on all backends; for rearrangements also the inverse law and the composition law are replayed."""
import json
import sys
import warnings

import numpy as np

import common
import corpus
import drive_calls as DC


def call(op, toks, ins, backend, L, kw):
    import einx
    desc = "".join(toks)
    sizes = {n: int(v) for n, v in L.items() if n in set(toks)}
    with warnings.catch_warnings():
        warnings.simplefilter("ignore")
        return getattr(einx, op)(desc, *ins, backend=backend, **sizes, **kw)


def outcome(fn):
    import einx
    try:
        r = fn()
        return ("ok", [np.asarray(x) for x in (r if isinstance(r, (tuple, list)) else [r])])
    except einx.errors.OperationNotSupportedError:
        return ("notsupported", None)
    except Exception as e:
        return ("exc", type(e).__name__ + ": " + str(e)[:150])


def same(a, b):
    if a.shape != b.shape:
        return False
    if a.dtype.kind in "biu" and b.dtype.kind in "biu":
        return np.array_equal(a, b)
    return np.allclose(a, b, rtol=1e-6, atol=1e-9, equal_nan=True)


def run_item(it):
    base, rels, ops, seed = it["base"], it["rel"], it["ops"], it["seed"]
    findings = []
    calls = 0
    rng = np.random.default_rng(seed)
    for op in ops:
        if op in ("sort", "argsort") and len(base["ins"][0]["brshape"]) != 1:
            continue
        kw = {"shift": 1} if op == "roll" else {}
        ins = DC.probe_inputs(base, op, rng)
        for backend in DC.BACKENDS:
            k0, r0 = outcome(lambda: call(op, base["desc"], [x.copy() for x in ins], backend, base["L"], kw))
            calls += 1
            if k0 != "ok":
                continue   # C01's business
            for rel in rels:
                ins2 = [x.copy() for x in ins]
                kind = rel["kind"]
                if kind == "permin":
                    i = rel["arg"] - 1
                    ins2[i] = np.ascontiguousarray(np.transpose(ins2[i], [p - 1 for p in rel["perm"]]))
                elif kind == "groupin":
                    i = rel["arg"] - 1
                    ins2[i] = ins2[i].reshape(rel["inshapes"][i])
                k1, r1 = outcome(lambda: call(op, rel["desc"], ins2, backend, rel["L"], kw))
                calls += 1
                if k1 != "ok":
                    findings.append({"op": op, "backend": backend, "rel": kind, "kind": "related-call-fails",
                                     "detail": "%r works but the %s-transformed %r gives %s %s" % ("".join(base["desc"]), kind, "".join(rel["desc"]), k1, r1)})
                    continue
                exp = r0
                if kind == "permout":
                    exp = [np.transpose(r0[0], [p - 1 for p in rel["perm"]])]
                if len(exp) != len(r1) or not all(same(a, b) for a, b in zip(exp, r1)):
                    findings.append({"op": op, "backend": backend, "rel": kind, "kind": "relation-violated",
                                     "detail": "%r vs %s-transformed %r: results are not related as the notation prescribes (%s vs %s)" % (
                                         "".join(base["desc"]), kind, "".join(rel["desc"]), r1[0].reshape(-1)[:6].tolist(), exp[0].reshape(-1)[:6].tolist())})
                # composition law for rearrangements: id(e1->e2) ; id(e2->e3) == id(e1->e3)
                if kind == "permout" and base["fam"] == "id" and len(base["ins"]) == 1 and len(base["outs"]) == 1 and op == "id":
                    toks2 = base["outtoks"][0] + [" ", "->", " "] + rel["outtoks"][0]
                    if len(set(t for t in base["outtoks"][0] if t.isalpha())) == len([t for t in base["outtoks"][0] if t.isalpha()]):
                        k2, r2 = outcome(lambda: call("id", toks2, [r0[0]], backend, base["L"], {}))
                        calls += 1
                        if k2 == "ok" and not same(r2[0], r1[0]):
                            findings.append({"op": "id", "backend": backend, "rel": "compose", "kind": "relation-violated",
                                             "detail": "id(%r) after id(%r) differs from id(%r)" % ("".join(toks2), "".join(base["desc"]), "".join(rel["desc"]))})
            # inverse law with several tensors (concatenate / split): id(outs -> ins) undoes id(ins -> outs)
            if base["fam"] == "id" and op == "id" and (len(base["ins"]) > 1 or len(base["outs"]) > 1):
                alltoks = [t for ts in base["intoks"] + base["outtoks"] for t in ts]
                nin = sorted(t for ts in base["intoks"] for t in ts if t.isalpha())
                nout = sorted(t for ts in base["outtoks"] for t in ts if t.isalpha())
                norep = all(len({t for t in ts if t.isalpha()}) == len([t for t in ts if t.isalpha()]) for ts in base["intoks"] + base["outtoks"])
                if "1" not in alltoks and set(nin) == set(nout) and norep:
                    toks_inv = []
                    for j, ts in enumerate(base["outtoks"]):
                        toks_inv += ([",", " "] if j else []) + ts
                    toks_inv += [" ", "->", " "]
                    for j, ts in enumerate(base["intoks"]):
                        toks_inv += ([",", " "] if j else []) + ts
                    k3, r3 = outcome(lambda: call("id", toks_inv, list(r0), backend, base["L"], {}))
                    calls += 1
                    if k3 != "ok" or len(r3) != len(ins) or not all(same(a, b) for a, b in zip(r3, ins)):
                        findings.append({"op": "id", "backend": backend, "rel": "invert", "kind": "relation-violated",
                                         "detail": "id(%r) does not invert id(%r): %s" % ("".join(toks_inv), "".join(base["desc"]), r3 if k3 != "ok" else "values differ")})
            # inverse law: pure bijective rearrangement
            if base["fam"] == "id" and op == "id" and len(base["ins"]) == 1 and len(base["outs"]) == 1:
                nin = [t for t in base["intoks"][0] if t.isalpha()]
                nout = [t for t in base["outtoks"][0] if t.isalpha()]
                if sorted(nin) == sorted(nout) and len(set(nin)) == len(nin) and "1" not in base["intoks"][0] + base["outtoks"][0]:
                    toks_inv = base["outtoks"][0] + [" ", "->", " "] + base["intoks"][0]
                    k3, r3 = outcome(lambda: call("id", toks_inv, [r0[0]], backend, base["L"], {}))
                    calls += 1
                    if k3 != "ok" or not same(r3[0], ins[0]):
                        findings.append({"op": "id", "backend": backend, "rel": "invert", "kind": "relation-violated",
                                         "detail": "id(%r) does not invert id(%r): %s" % ("".join(toks_inv), "".join(base["desc"]), r3 if k3 != "ok" else "values differ")})
    return findings, calls


def run_chunk(items):
    out = []
    for it in items:
        try:
            f, c = run_item(it)
        except Exception:
            import traceback
            f, c = [{"op": "-", "backend": "-", "rel": "-", "kind": "machinery", "detail": traceback.format_exc()[-700:]}], 0
        out.append({"findings": f, "calls": c})
    return out


OPS = {"id": ["id"], "elementwise": ["subtract", "less"], "reduce": ["sum", "max"], "dot": ["dot"], "preserve": ["flip", "softmax", "sort"],
       "argfind": ["argmax"], "get_at": ["get_at"], "update_at": ["add_at"]}


def run(tier):
    rep = common.Report("C08", tier)
    rep.rule = ("every case of the corpus x every applicable transformation instance (3 renamings; all permutations of un-bracketed top-level dimensions "
                "of each input and of the output; every adjacent pair of plain axes grouped); non-trivial = case has equal lengths on different axes, a unit axis, a repeated name or parentheses")
    rep.assumptions = ["numpy backends only", "bracketed dimensions keep their position in permutations (their relative order is significant for several operations)"]
    specs = corpus.quick_specs() if tier == "quick" else corpus.thorough_specs()
    if tier == "quick":
        specs = [s for s in specs if s[0] not in ("update_at",)] + [("update_at", ["a"], corpus.LENS_QUICK, 2, 3)]
        # equal lengths everywhere: the setting in which swapped blocks / axes keep every shape intact
        specs.append(("idcat", ["a", "b"], [(2, 2, 2, 2, 2, 2)], 3, 3))
    rels = corpus.generate(rep, specs, mode="equiv", timeout=1500 if tier == "quick" else 3000)
    if tier == "thorough":
        rels = corpus.cap(rels, 40000)
    rep.exhaustive = True
    if tier == "quick":
        keep = {"elementwise": 12, "get_at": 8, "id": 4, "update_at": 6, "preserve": 2, "argfind": 2}
        rels = [r for i, r in enumerate(rels) if i % keep.get(r["base"]["fam"], 1) == 0]
    items = [{"base": r["base"], "rel": r["rel"], "ops": OPS[r["base"]["fam"]] if tier == "thorough" else OPS[r["base"]["fam"]][: 1 + (i % 2)],
              "seed": common.seed() * 104729 + i} for i, r in enumerate(rels)]
    results = common.parallel_map("run_chunk", sys.modules[__name__], items)
    nrel = 0
    for it, r in zip(items, results):
        rep.replayed += 1
        nrel += len(it["rel"])
        rep.evaluations += r["calls"]
        if DC.features(it["base"]):
            rep.nontriv("".join(it["base"]["desc"]) + json.dumps(it["base"]["L"], sort_keys=True))
        for f in r["findings"]:
            if f["kind"] == "machinery":
                raise common.MachineryError(f["detail"])
            rep.violation({"kind": f["kind"], "rel": f["rel"], "op": f["op"], "backend": f["backend"], "fam": it["base"]["fam"], "features": DC.features(it["base"])},
                          {"item": it}, "einx.%s backend=%s lengths=%s: %s" % (f["op"], f["backend"], {k: v for k, v in it["base"]["L"].items() if k in set(it["base"]["desc"])}, f["detail"]))
    rep.extra["related_pairs"] = nrel
    it = items[len(items) // 2]
    rep.sample({"base": "".join(it["base"]["desc"]), "related": [[r["kind"], "".join(r["desc"]), r["perm"]] for r in it["rel"]][:6]})
    return rep.finish()


def replay(path):
    with open(path) as f:
        v = json.load(f)
    f2, _ = run_item(v["case"]["item"])
    print(f2[:3])
    if f2:
        print("VIOLATION property=C08 replay=%s" % path)
        return 1
    return 0
