"""C02 - axis and rank solving is sound, unambiguous and exact.

Explore : Solve.tla defines the solution SET of a system (expressions with flatten / concat / ellipsis / numbers, tensor
          shapes or unknown, scalar or per-repetition keyword sizes) by brute-force enumeration of positive integers, the
          verdict none / unique / ambiguous on the reported quantities, and Propagate (substituting known values one
          flattened/concatenated axis at a time).  SolveCases.tla enumerates systems built from hidden assignments with
          perturbed dimensions, contradicted / missing / tuple keywords and unknown shapes; TLC evaluates the verdicts
          (and SolveSane) on every one and exports them.
Replay  : einx.solve_axes, solve_shapes and matches are called on every system: a returned value requires verdict
          'unique' and must equal the unique solution (soundness); verdict 'none' requires RankError/AxisSizeError and
          matches == False; unique + Propagate-complete requires success.  A scaled family multiplies one keyword-given
          axis and the dimensions that are linear in it by 2**16 / 2**31 to probe exactness beyond 2**31."""
import json
import os
import concurrent.futures as cf

import common
import drive_solve as DS

SPEC = common.SPEC


def gen(rep, pool, hs, nshards, timeout):
    d = common.workdir("c02")
    mod = "MC_Solve_%s" % pool
    with open(os.path.join(d, mod + ".tla"), "w") as f:
        f.write("---- MODULE %s ----\nEXTENDS SolveCases\nMCH == {%s}\n====\n" % (mod, ", ".join(common.tla_expr(list(h)) for h in hs)))

    def one(sh):
        cfg = os.path.join(d, "%s_%d.cfg" % (mod, sh))
        with open(cfg, "w") as f:
            f.write("\n".join(["SPECIFICATION Spec", "CONSTANTS", '  Pool = "%s"' % pool, "  HSet <- MCH", "  Shard = %d" % sh, "  NShards = %d" % nshards,
                               "CONSTRAINT EmitS", "INVARIANT SolveSane", "CHECK_DEADLOCK FALSE"]) + "\n")
        return common.run_tlc(os.path.join(d, mod + ".tla"), cfg, workers=1, timeout=timeout)

    cases = []
    with cf.ThreadPoolExecutor(nshards) as ex:
        for sh, res in enumerate(ex.map(one, range(nshards))):
            if res.rc == 124:
                rep.tlc_runs.append({"config": "SolveCases shard %d" % sh, "timeout": True})
                rep.exhaustive = False
                continue
            if sh == 0:
                rep.add_tlc("SolveCases.tla pool=%s (shard 0 of %d; every shard enumerates all systems)" % (pool, nshards), res)
            elif res.error or res.violated:
                rep.add_tlc("SolveCases shard %d" % sh, res)
            if res.violated:
                rep.violation({"kind": "model", "invariant": res.violated}, {}, "TLC: %s violated\n%s" % (res.violated, res.counterexample()[:2000]))
            cases.extend(res.printed("S"))
    return cases


def scaled_variants(case):
    """one keyword-given plain axis and every dimension linear in it multiplied by a big factor"""
    out = []
    if case["verdict_axes"] != "unique" or "..." in case["toks"] or "+" in case["toks"]:
        return out
    sol = case["sol"][0]
    for kwi, k in enumerate(case["kw"]):
        n = k["n"]
        if len(k["v"]) != 1:
            continue
        # occurrences of n per dimension (only products): dimension sizes scale with factor**occurrences
        for factor in (1 << 16, 1 << 31):
            c2 = json.loads(json.dumps(case))
            c2["kw"][kwi]["v"] = [k["v"][0] * factor]
            ok = True
            exprs = "".join(case["toks"]).split(", ")
            for i, (e, sh) in enumerate(zip(exprs, case["shapes"])):
                if sh == [-1]:
                    continue
                dims = []
                depth = 0
                cur = ""
                for ch in e:
                    if ch == "(":
                        depth += 1
                    if ch == ")":
                        depth -= 1
                    if ch == " " and depth == 0:
                        dims.append(cur)
                        cur = ""
                    else:
                        cur += ch
                dims.append(cur)
                if len(dims) != len(sh):
                    ok = False
                    break
                for j, dtxt in enumerate(dims):
                    occ = dtxt.replace("(", " ").replace(")", " ").split().count(n)
                    c2["shapes"][i][j] = sh[j] * factor ** occ
            if not ok:
                continue
            s2 = json.loads(json.dumps(sol))
            s2["L"][n] = sol["L"][n] * factor
            s2["shapes"] = [list(s) for s in c2["shapes"]] if all(s != [-1] for s in c2["shapes"]) else None
            c2["sol"] = [s2]
            c2["scaled"] = factor
            if s2["shapes"] is not None and all(v < (1 << 62) for sh in c2["shapes"] for v in sh):
                out.append(c2)
    return out


BIG_ODD = (1 << 55) + 3        # not representable as a double once multiplied by a small odd length


def _dims_of(e):
    dims, depth, cur = [], 0, ""
    for ch in e:
        if ch == "(":
            depth += 1
        if ch == ")":
            depth -= 1
        if ch == " " and depth == 0:
            dims.append(cur)
            cur = ""
        else:
            cur += ch
    dims.append(cur)
    return dims


def scaled_unknown_variants(case):
    """an axis that is NOT given by a keyword (its length has to be solved for, e.g. by dividing a flattened dimension by
    the known factors) gets a huge odd length: every dimension linear in it is multiplied by BIG_ODD.  The solution set
    is the image of the original one (product constraints are homogeneous), so the verdict and Propagate are unchanged."""
    out = []
    if case["verdict_axes"] != "unique" or "..." in case["toks"] or "+" in case["toks"] or any(sh == [-1] for sh in case["shapes"]):
        return out
    sol = case["sol"][0]
    if not isinstance(sol.get("L"), dict):
        return out
    given = {k["n"] for k in case["kw"]}
    exprs = "".join(case["toks"]).split(", ")
    for n in sorted(sol["L"]):
        if n in given or "." in n or n.startswith("_") or not n.isalpha():
            continue
        c2 = json.loads(json.dumps(case))
        ok, hit = True, False
        for i, (e, sh) in enumerate(zip(exprs, case["shapes"])):
            dims = _dims_of(e)
            if len(dims) != len(sh):
                ok = False
                break
            for j, dtxt in enumerate(dims):
                occ = dtxt.replace("(", " ").replace(")", " ").replace("[", " ").replace("]", " ").split().count(n)
                if occ > 1:
                    ok = False
                if occ == 1:
                    c2["shapes"][i][j] = sh[j] * BIG_ODD
                    hit = True
        if not (ok and hit):
            continue
        s2 = json.loads(json.dumps(sol))
        s2["L"][n] = sol["L"][n] * BIG_ODD
        s2["shapes"] = [list(x) for x in c2["shapes"]]
        c2["sol"] = [s2]
        c2["scaled"] = "unknown-axis"
        if all(v < (1 << 62) for sh in c2["shapes"] for v in sh):
            out.append(c2)
    return out


def zero_variants(case):
    """a dimension or a keyword size of 0: products and sums of positive integers are >= 1, so no assignment of positive
    integers satisfies the system - it has to be rejected whatever else it says"""
    out = []
    if "..." in case["toks"] or any(sh == [-1] for sh in case["shapes"]) or not case["shapes"] or not case["shapes"][0]:
        return out
    for (i, j) in {(0, 0), (len(case["shapes"]) - 1, len(case["shapes"][-1]) - 1)}:
        if not case["shapes"][i]:
            continue
        c2 = json.loads(json.dumps(case))
        c2["shapes"][i][j] = 0
        c2.update({"verdict_axes": "none", "verdict_shapes": "none", "sol": [], "nsol": 0, "propagate": False, "zero": "dimension", "opaque_solvable": False})
        out.append(c2)
    for kwi, k in enumerate(case["kw"][:1]):
        c2 = json.loads(json.dumps(case))
        c2["kw"][kwi]["v"] = [0] * len(k["v"])
        c2.update({"verdict_axes": "none", "verdict_shapes": "none", "sol": [], "nsol": 0, "propagate": False, "zero": "keyword", "opaque_solvable": False})
        out.append(c2)
    return out


def long_ellipsis_cases():
    """an ellipsis with many repetitions (more than ten: positions need two digits) over pairwise different lengths: the
    system is trivially uniquely solvable, every repetition's length is the corresponding dimension"""
    out = []
    primes = [2, 3, 5, 7, 11, 13, 17, 19, 23, 29, 31, 37, 41, 43, 47, 53, 59, 61, 67, 71, 73, 79, 83, 89]
    for r in (3, 10, 11, 12, 21, 24):
        shape = primes[:r]
        for toks, shp, L, rho in ((["a", "..."], shape, {"a.%d" % i: v for i, v in enumerate(shape)}, {"a": r}),
                                  (["b", " ", "a", "..."], [4] + shape, dict({"a.%d" % i: v for i, v in enumerate(shape)}, b=4), {"a": r}),
                                  (["(", "a", " ", "2", ")", "..."], [2 * v for v in shape], {"a.%d" % i: v for i, v in enumerate(shape)}, {"a": r})):
            out.append({"toks": toks, "shapes": [list(shp)], "kw": [], "verdict_axes": "unique", "verdict_shapes": "unique", "nsol": 1, "propagate": True,
                        "sol": [{"L": dict(L), "rho": dict(rho), "shapes": [list(shp)]}], "long_ellipsis": r, "opaque_solvable": False})
    return out


def run(tier):
    rep = common.Report("C02", tier)
    rep.rule = ("systems = expression list from the pool x hidden assignment x {no perturbation, +1 on one dimension, last dimension dropped} x at most one unknown "
                "shape x keyword choice per axis {absent, consistent, contradicting, per-repetition tuple}; non-trivial = verdict is not 'unique', or the "
                "system has an ellipsis, a concatenation or a keyword")
    rep.assumptions = ["solutions are enumerated within 1..M, M = 1 + the largest constant of the system; unconstrained axes range over 1..2 (two values witness ambiguity)",
                       "nested ellipses are not enumerated", "the scaled big-number family relies on homogeneity of product constraints in one keyword-given axis"]
    rep.exhaustive = True
    if tier == "quick":
        cases = gen(rep, "small", [(2, 3, 2), (1, 2, 2)], 16, 900)
    else:
        cases = gen(rep, "small", [(2, 3, 2), (1, 2, 2), (3, 3, 3), (2, 1, 3)], 16, 1500) + gen(rep, "large", [(2, 3, 2)], 16, 3000)
    items = list(cases)
    extra = []
    for c in cases:
        extra.extend(scaled_variants(c))
    extra2, extra3 = [], []
    for c in cases:
        extra2.extend(scaled_unknown_variants(c))
        extra3.extend(zero_variants(c))
    if tier == "quick":
        extra = extra[::5]
        extra2 = extra2[::5]
        extra3 = extra3[::7]
    rep.extra["scaled_unknown_axis_cases"] = len(extra2)
    rep.extra["zero_size_cases"] = len(extra3)
    extra4 = long_ellipsis_cases()
    rep.extra["long_ellipsis_cases"] = len(extra4)
    items += extra + extra2 + extra3 + extra4
    results = common.parallel_map("run_chunk", DS, items)
    verd = {}
    for c, fs in zip(items, results):
        rep.replayed += 1
        rep.evaluations += 3
        verd[c["verdict_axes"]] = verd.get(c["verdict_axes"], 0) + 1
        desc = "".join(c["toks"])
        if c["verdict_axes"] != "unique" or "..." in c["toks"] or "+" in c["toks"] or c["kw"]:
            rep.nontriv(desc + json.dumps([c["shapes"], c["kw"]]))
        for f in fs:
            if f["kind"] == "machinery":
                raise common.MachineryError(f["detail"])
            if f["kind"] == "unsound:none" and c.get("opaque_solvable"):
                f["kind"] = "unsound:none:solvable-when-parenthesised-axes-are-opaque"
            feats = sorted({t for t in c["toks"] if t in ("...", "+", "(")} | ({"scaled"} if c.get("scaled") else set()) | ({"zero-" + c["zero"]} if c.get("zero") else set()) | ({"unknown_shape"} if [-1] in c["shapes"] else set()))
            rep.violation({"kind": f["kind"], "api": f["api"], "features": feats},
                          {"case": c}, "%s(%r, shapes=%s, %s): %s" % (f["api"], desc, c["shapes"], {k["n"]: k["v"] for k in c["kw"]}, f["detail"]))
    rep.extra["verdicts"] = verd
    rep.extra["scaled_cases"] = len(extra)
    for c in cases[:: max(1, len(cases) // 4)][:4]:
        rep.sample({"description": "".join(c["toks"]), "shapes": c["shapes"], "kw": c["kw"], "verdict_axes": c["verdict_axes"], "verdict_shapes": c["verdict_shapes"],
                    "solutions": c["nsol"], "propagate": c["propagate"]})
    return rep.finish()


def replay(path):
    with open(path) as f:
        v = json.load(f)
    fs = DS.run_case(v["case"]["case"])
    print(fs)
    if fs:
        print("VIOLATION property=C02 replay=%s" % path)
        return 1
    return 0
