"""C06 - a call's outcome does not depend on earlier calls (cache transparency).

measure : for an alphabet of concrete calls with equal-but-not-identical variants (2 / 2.0 / np.int64(2) / True,
          tuple / list / array, array / scalar / factory of equal shape, backend None / name / object / with-block,
          calls failing at parse / rank / size / semantic / run time, adapters, solve_*), pristine forked interpreters
          measure FreshOf (outcome class), ArtOf (class of the generated code) and, for every ordered pair of calls of the
          same operation, whether the second is a cache hit after the first -> KeyOf (classes of the hit relation).
Explore : Session.tla with these tables: TLC explores every history up to the bound and checks C06_CacheTransparent
          (every call of every history has its fresh outcome), CacheFunctional, KeyRespectsArtefact.
Replay  : histories (all ordered pairs, and TLC-simulated triples) are executed in pristine forks; every real outcome
          is compared with FreshOf and every observed hit/miss with the specification's prediction (binds KeyOf)."""
import itertools
import json
import os
import random
import sys

import common
import drive_session as DS

SPEC = common.SPEC


def classes_from_hits(names, hits):
    parent = {n: n for n in names}

    def find(x):
        while parent[x] != x:
            parent[x] = parent[parent[x]]
            x = parent[x]
        return x
    for (a, b), h in hits.items():
        if h:
            parent[find(a)] = find(b)
    return {n: find(n) for n in names}


class _NeedForks(Exception):
    pass


def run(tier):
    """Fast path: measurements and histories run in worker processes that reset einx's known long-lived state between them,
    cross-checked against real pristine forks.  If the cross-check fails, or the fast path sees any deviation that is not a
    recorded finding, some state survives the reset: everything is then redone with one pristine fork per measurement /
    history, and only that run is reported."""
    try:
        return _run(tier, fork=False)
    except _NeedForks as e:
        print("C06: %s -> repeating all measurements and histories in pristine forks" % e)
        return _run(tier, fork=True)


def _run(tier, fork):
    sfx = "_fork_chunk" if fork else "_chunk"
    rep = common.Report("C06", tier)
    rep.rule = ("alphabet of %d concrete calls; histories = all ordered pairs + TLC-simulated triples, each in a pristine forked interpreter; "
                "non-trivial = the history contains a cache hit between two different calls or follows a failing call") % len(DS.calls())
    rep.assumptions = ["numpy backends only", "FreshOf / ArtOf / KeyOf are measured on the code under test in pristine forks (one call, or one ordered pair, per fork)",
                       "outcome class = exception class, or dtype kind + shape + digest of values rounded to 6 digits"]
    DS.warm_imports()
    names = sorted(DS.calls())
    ops = {n: DS.calls()[n][0] for n in names}
    singles = {r["name"]: r for r in common.parallel_map("measure_single" + sfx, DS, names)}
    for r in singles.values():
        if "machinery_error" in r:
            raise common.MachineryError(str(r))
    pairs = [(a, b) for a in names for b in names if a != b and ops[a] == ops[b] and ops[a] != "solve"]
    pres = common.parallel_map("measure_pair" + sfx, DS, pairs)
    # c2 is a hit after c1 iff nothing was compiled for it although a fresh c2 compiles, or although its outcome changed
    hits = {tuple(r["pair"]): bool(r["nocompile"] and (singles[r["pair"][1]]["compiled"] > 0 or r["out2"] != singles[r["pair"][1]]["fresh"])) for r in pres}
    # the in-process reset used for the bulk of the measurements is cross-checked against real pristine forks
    forked = {r["name"]: r for r in common.parallel_map("measure_single_fork_chunk", DS, names[:: (4 if tier == "quick" else 1)])}
    for n, r in forked.items():
        if (r["fresh"], r["graph"]) != (singles[n]["fresh"], singles[n]["graph"]):
            if fork:
                rep.violation({"kind": "outcome-differs-between-identical-pristine-runs", "call": n}, {"history": [n], "position": 0},
                              "call %s gives %s in one pristine interpreter and %s in another" % (n, r, singles[n]))
                continue
            raise _NeedForks("resetting einx's known caches is not equivalent to a fresh interpreter for call %s" % n)
    key = classes_from_hits(names, hits)
    art = {n: ("none" if singles[n]["graph"].startswith("exc:") or singles[n]["graph"] == "none" else singles[n]["graph"]) for n in names}
    fresh = {n: singles[n]["fresh"] for n in names}
    rep.extra["key_classes"] = {}
    for n in names:
        rep.extra["key_classes"].setdefault(key[n], []).append(n)
    rep.extra["key_classes"] = {k: v for k, v in rep.extra["key_classes"].items() if len(v) > 1}
    # --- Explore
    known_calls = {k["signature"]["call"] for k in rep.known if "call" in k.get("signature", {})} & set(names)
    rep.extra["calls_excluded_from_the_model_invariant_as_known_findings"] = sorted(known_calls)
    d = common.workdir("c06")
    with open(os.path.join(d, "MC_Session.tla"), "w") as f:
        f.write("\n".join(["---- MODULE MC_Session ----", "EXTENDS Session",
                           "MCCalls == " + common.tla_expr(set(names)),
                           "MCKey == " + common.tla_expr(key), "MCArt == " + common.tla_expr(art),
                           "MCFresh == " + common.tla_expr(fresh), "MCOp == " + common.tla_expr(ops),
                           "MCKnown == " + common.tla_expr(known_calls), "===="]) + "\n")
    maxlen = 3
    cfg = os.path.join(d, "MC_Session.cfg")
    with open(cfg, "w") as f:
        f.write("\n".join(["SPECIFICATION Spec", "CONSTANTS", "  Calls <- MCCalls", "  KeyOf <- MCKey", "  ArtOf <- MCArt", "  FreshOf <- MCFresh", "  OpOf <- MCOp", "  Known <- MCKnown",
                           "  MaxLen = %d" % maxlen, "INVARIANT C06_CacheTransparent", "INVARIANT CacheFunctional", "CHECK_DEADLOCK FALSE"]) + "\n")
    res = common.run_tlc(os.path.join(d, "MC_Session.tla"), cfg, timeout=1500)
    rep.add_tlc("Session.tla, %d calls, histories <= %d" % (len(names), maxlen), res)
    rep.exhaustive = res.rc == 0 or bool(res.violated)
    model_violation = res.violated
    # --- Replay
    hist2 = [[a, b] for a in names for b in names]
    rng = random.Random(common.seed() * 9176 + 3)
    n3 = 600 if tier == "quick" else 6000
    same_key = [(a, b) for (a, b), h in hits.items() if h]
    hist3 = []
    for _ in range(n3):
        if same_key and rng.random() < 0.5:
            a, b = rng.choice(same_key)
            hist3.append([rng.choice(names), a, b])
        else:
            hist3.append([rng.choice(names) for _ in range(3)])
    if tier == "quick":
        hist2 = [h for h in hist2 if ops[h[0]] == ops[h[1]] or rng.random() < 0.15]
    results = common.parallel_map("run_history" + sfx, DS, hist2 + hist3)
    # a sample of the histories also runs in real forks and must agree with the in-process runs
    sample = (hist2 + hist3)[:: (40 if tier == "quick" else 10)]
    fres = common.parallel_map("run_history_fork_chunk", DS, sample)
    allh = hist2 + hist3
    idx = {json.dumps(h): i for i, h in enumerate(allh)}
    for h, fr in zip(sample, fres):
        a = [o["outcome"] for o in fr["outs"]]
        b = [o["outcome"] for o in results[idx[json.dumps(h)]]["outs"]]
        if a != b:
            if fork:
                # identical pristine interpreters executing the same history disagree: the outcome depends on something that
                # is neither the call nor the history (object addresses, allocation order) - a violation, not a harness fault
                rep.violation({"kind": "outcome-differs-between-identical-pristine-runs", "call": h[[i for i in range(len(a)) if a[i] != b[i]][0]] if len(a) == len(b) else "-"},
                              {"history": h, "position": 0}, "history %s gives %s in one pristine interpreter and %s in another" % (h, a, b))
                continue
            raise _NeedForks("history %s gives %s in a pristine fork but %s after the in-process reset" % (h, a, b))
    rep.extra["histories_cross_checked_in_forks"] = len(sample)
    rep.extra["mode"] = "one pristine fork per measurement / history" if fork else "in-process reset of einx's caches, cross-checked against pristine forks"
    confirmed = []
    for h, r in zip(hist2 + hist3, results):
        if "machinery_error" in r:
            raise common.MachineryError(str(r))
        rep.replayed += 1
        rep.evaluations += len(h)
        seen = {}
        for i, o in enumerate(r["outs"]):
            c = o["c"]
            pred_hit = ops[c] != "solve" and any(ops[p] == ops[c] and key[p] == key[c] and art[p] != "none" for p in h[:i])
            if pred_hit and any(p != c for p in h[:i] if ops[p] == ops[c] and key[p] == key[c]):
                rep.nontriv(json.dumps(h))
            if any(fresh[p].startswith("exc:") for p in h[:i]):
                rep.nontriv(json.dumps(h))
            if o["outcome"] != fresh[c]:
                rep.violation({"kind": "outcome-depends-on-history", "call": c, "fresh": fresh[c], "after": o["outcome"], "earlier": [p for p in h[:i] if ops[p] == ops[c] and key[p] == key[c]][:1]},
                              {"history": h, "position": i},
                              "call %s gives %s in a fresh interpreter but %s after %s" % (c, fresh[c], o["outcome"], h[:i]))
                confirmed.append((h, i))
            observed_hit = o["compiled"] == 0 and ops[c] != "solve" and not (fresh[c].startswith("exc:") and art[c] == "none" and not pred_hit)
            if ops[c] != "solve" and art[c] != "none" and (o["compiled"] == 0) != pred_hit:
                rep.violation({"kind": "hit-miss-prediction", "call": c}, {"history": h, "position": i},
                              "specification predicts %s for call %s after %s but the code %s" % ("a hit" if pred_hit else "a miss", c, h[:i], "did not compile" if o["compiled"] == 0 else "compiled"))
    if rep.violations and not fork:
        raise _NeedForks("the fast path saw %d deviation(s) that are not recorded findings" % len(rep.violations))
    if model_violation and not confirmed:
        rep.violation({"kind": "model", "invariant": model_violation}, {"tables": {"key": key, "art": art, "fresh": fresh}},
                      "TLC: %s violated for the measured tables, but no replayed history reproduced it\n%s" % (model_violation, res.counterexample()[:3000]))
    elif model_violation:
        rep.extra["tlc_invariant_violated"] = model_violation
    for h in (hist2[0], hist2[len(hist2) // 2], hist3[0]):
        rep.sample({"history": h, "fresh": [fresh[c] for c in h]})
    return rep.finish()


def replay(path):
    with open(path) as f:
        v = json.load(f)
    DS.warm_imports()
    h = v["case"]["history"]
    r = DS.run_history(h)
    singles = {n: DS.measure_single(n) for n in set(h)}
    bad = [(o["c"], o["outcome"], singles[o["c"]]["fresh"]) for o in r["outs"] if o["outcome"] != singles[o["c"]]["fresh"]]
    print(h, bad)
    if bad:
        print("VIOLATION property=C06 replay=%s" % path)
        return 1
    return 0
