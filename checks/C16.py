"""C16 - results are reproducible across processes, hash seeds and repeated calls.

Validate: Repro.tla states Reproducible (all observations of a call agree on the outcome for every PYTHONHASHSEED,
          uuid draw and repetition) and GraphStable (two graph=True requests in one process give identical text).
          Corpus cases are executed three times each in child interpreters started with different PYTHONHASHSEEDs
          (quick 4, thorough 16); set_at additionally with fully duplicated coordinates (the surviving value must not
          depend on the seed).  TLC reads all observations and decides both clauses per call."""
import json
import os
import subprocess
import sys

import common
import corpus
import drive_calls as DC

SPEC = common.SPEC
OPS = {"id": ["id"], "elementwise": ["add", "less"], "reduce": ["sum", "max"], "dot": ["dot"], "preserve": ["flip", "softmax", "sort"],
       "argfind": ["argmax"], "get_at": ["get_at"], "update_at": ["set_at", "add_at"]}


def run_children(items, seeds):
    d = common.workdir("c16")
    nchunk = max(1, min(16 // max(1, min(len(seeds), 4)), 8))
    chunks = [items[i::nchunk] for i in range(nchunk)]
    procs = []
    for ci, ch in enumerate(chunks):
        path = os.path.join(d, "items_%d.json" % ci)
        with open(path, "w") as f:
            json.dump(ch, f)
        for s in seeds:
            env = dict(os.environ, PYTHONHASHSEED=str(s), OMP_NUM_THREADS="1", OPENBLAS_NUM_THREADS="1")
            if isinstance(s, str):      # "prefix" / "suffix": forced uuid streams (hash seed 0), observed under ids 1001 / 1002
                env.update(PYTHONHASHSEED="0", VERIF_UUID_STREAM=s, VERIF_OBS_ID={"prefix": "1001", "suffix": "1002"}[s])
            procs.append((s, subprocess.Popen([common.PY, os.path.join(common.VERIF, "harness", "repro_child.py"), path], stdout=subprocess.PIPE, stderr=subprocess.PIPE, text=True, env=env)))
    obs = []
    # bounded parallelism: wait in order (all were started; the OS schedules them)
    for s, p in procs:
        out, err = p.communicate(timeout=3000)
        if p.returncode != 0:
            raise common.MachineryError("child with PYTHONHASHSEED=%s failed: %s" % (s, err[-800:]))
        for line in out.splitlines():
            if line.startswith("OBS "):
                obs.append(json.loads(line[4:]))
    return obs


def run(tier):
    rep = common.Report("C16", tier)
    rep.rule = ("corpus cases x one operation x default backend x 3 repetitions x PYTHONHASHSEED in the seed list; set_at also with all-equal coordinates; "
                "non-trivial = cases of families whose lowering iterates over Python sets (update_at, elementwise with implicit choices, reductions with CSE)")
    rep.assumptions = ["hash-seed resolutions are observed, not forced: quick uses 4 seeds, thorough 16; the identifiers einx draws (uuid4) are additionally FORCED to two adversarial collision-free streams", "numpy backend"]
    specs = corpus.quick_specs()
    cases = corpus.generate(rep, specs)
    if tier == "thorough":
        cases = corpus.cap(cases, 40000)
    rep.exhaustive = True
    keep = {"elementwise": 12, "update_at": 16, "get_at": 20, "id": 20, "preserve": 10, "argfind": 10, "reduce": 5, "dot": 2} if tier == "quick" else \
           {"elementwise": 8, "update_at": 5, "get_at": 5, "id": 5, "preserve": 3, "argfind": 3, "reduce": 1, "dot": 1}
    items = []
    for i, c in enumerate(cases):
        if i % keep.get(c["fam"], 1):
            continue
        ops = OPS[c["fam"]]
        op = ops[i % len(ops)]
        if op in ("sort",) and len(c["ins"][0]["brshape"]) != 1:
            op = "flip"
        items.append({"cid": "c%d" % len(items), "case": c, "op": op, "backend": "numpy", "seed": common.seed() * 101 + i})
        if c["fam"] in ("elementwise", "reduce", "preserve") and i % (2 * keep.get(c["fam"], 1)) == 0:
            # the same inputs without an output expression: value or SemanticError, but the same one under every seed
            items.append({"cid": "c%d" % len(items), "case": c, "op": op, "backend": "numpy", "seed": common.seed() * 101 + i, "implicit": True})
        if c["fam"] == "update_at":
            items.append({"cid": "c%d" % len(items), "case": c, "op": "set_at", "backend": "numpy", "seed": common.seed() * 101 + i, "dupcoords": True})
    # descriptions with several unnamed axes (numbers, anonymous ellipsis): the identifiers drawn for them must not matter
    for rd, shapes in [("a -> a 2 3", [[4]]), ("a [2 3]", [[4, 2, 3]]), ("(a 2) 3 -> 3 a 2", [[8, 3]]), ("... 2 3 -> 3 ... 2", [[4, 2, 3]]),
                       ("a 2 3, a -> a 2 3", [[4, 2, 3], [4]]), ("[2] a [3] -> a", [[2, 4, 3]]), ("... [2 3]", [[2, 2, 3]])]:
        op = "sum" if "[" in rd else ("add" if "," in rd else "id")
        items.append({"cid": "c%d" % len(items), "op": op, "backend": "numpy", "seed": common.seed() * 101 + len(items), "raw": {"desc": rd, "shapes": shapes},
                      "case": {"fam": "raw", "desc": list(rd), "intoks": [list(rd)]}})
    seeds = ([0, 1, 2, 5] if tier == "quick" else list(range(16))) + ["prefix", "suffix"]
    obs = run_children(items, seeds)
    rep.evaluations += len(obs)
    d = common.workdir("c16")
    path = os.path.join(d, "obs.ndjson")
    with open(path, "w") as f:
        for o in obs:
            f.write(json.dumps(o) + "\n")
    cfg = common.write_cfg(os.path.join(d, "repro.cfg"), spec="Spec", constraints=["Chk"])
    res = common.run_tlc(os.path.join(SPEC, "Repro.tla"), cfg, workers=1, env={"TRACE_FILE": path})
    rep.add_tlc("Repro.tla over %d observations of %d calls" % (len(obs), len(items)), res)
    if res.distinct != len(items):
        raise common.MachineryError("Repro.tla saw %d calls, expected %d\n%s" % (res.distinct, len(items), res.out[-1500:]))
    byid = {it["cid"]: it for it in items}
    bad = set()
    for line in res.out.splitlines():
        for tag in ("IRREPRODUCIBLE", "GRAPHUNSTABLE"):
            if line.startswith('<<"%s"' % tag):
                cid = line.strip("<>").split(", ")[1].strip('"')
                bad.add(cid)
                it = byid[cid]
                mine = [o for o in obs if o["cid"] == cid]
                rep.violation({"kind": tag, "fam": it["case"]["fam"], "op": it["op"], "dupcoords": bool(it.get("dupcoords"))},
                              {"item": it, "observations": mine},
                              "einx.%s(%r)%s: %s: %s" % (it["op"], (it["raw"]["desc"] if "raw" in it else DC.desc_of(it["case"])) if not it.get("implicit") else ", ".join("".join(t) for t in it["case"]["intoks"]), " with all-equal coordinates" if it.get("dupcoords") else "",
                                                          "outcome depends on PYTHONHASHSEED / repetition" if tag == "IRREPRODUCIBLE" else "two graph=True requests differ",
                                                          sorted({(o["seed"], o["digest"]) for o in mine})[:6]))
    rep.validated += len(items) - len(bad)
    for it in items:
        if it["case"]["fam"] in ("update_at", "elementwise", "reduce"):
            rep.nontriv(it["cid"])
    rep.extra["hash_seeds"] = seeds
    rep.extra["distinct_graph_texts_across_seeds"] = sum(1 for it in items if len({o["gtext"] for o in obs if o["cid"] == it["cid"]}) > 1)
    rep.extra["forced_uuid_streams"] = ["all identifiers share their leading 96 bits", "all identifiers share their trailing 96 bits"]
    rep.sample({"call": [items[0]["op"], DC.desc_of(items[0]["case"])], "observations": [o for o in obs if o["cid"] == items[0]["cid"]][:4]})
    return rep.finish()


def replay(path):
    with open(path) as f:
        v = json.load(f)
    it = v["case"]["item"]
    obs = run_children([it], [0, 1, 2, 3, 4, 5, 6, 7])
    ds = sorted({(o["seed"], o["digest"]) for o in obs})
    print(ds)
    if len({d for _, d in ds}) > 1:
        print("VIOLATION property=C16 replay=%s" % path)
        return 1
    return 0
