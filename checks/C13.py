"""C13 - tensor factories run once per call, with the resolved shape, only at run time.

Explore/Validate: Factory.tla is the protocol state machine (phases idle -> compile -> run -> done; invoke only in run,
          once per position, with the shape the expression resolves to and exactly the declared optional keywords;
          normal return implies every factory invoked once; graph=True / rejected calls invoke none).  The expected
          shapes come from TLC (Cases.tla / Loop.tla:Shape of the corpus case).  Every real call is recorded as an event
          trace (begin, optimize, invoke(i, shape, kw), end) and TLC decides whether it is a behaviour of the machine.
Replay  : corpus cases x subsets of argument positions replaced by factories x signatures x call kinds
          (miss, hit, hit with a new factory object, graph=True, rejected because under-determined, wrong type / shape);
          the value must equal the call with the produced tensors passed directly."""
import functools
import itertools
import json
import os
import sys
import warnings

import numpy as np

import common
import corpus
import drive_calls as DC

SPEC = common.SPEC
OPTIONAL = ("name", "arg_index", "signature")


# same parameter NAMES with different KINDS sit next to each other (name / posonly, varkw / varpos): a cache key or a
# signature lookup that forgets the kind reuses the calling convention of the neighbour
SIGKINDS = ["positional", "name", "posonly", "kwonly", "varkw", "varpos", "object", "partial"]


class Recorder:
    def __init__(self):
        self.events = []


def make_factory(kind, rec, i, value_fn):
    """kind: positional | name | kwonly | varkw | object | partial | wrongshape | wrongtype"""
    def log(shape, kw):
        rec.events.append({"e": "invoke", "i": str(i), "shape": [int(s) for s in shape], "kw": sorted(kw)})
    if kind == "positional":
        def f(shape):
            log(shape, {})
            return value_fn(shape)
        return f, []
    if kind == "name":
        def f(shape, name=None):
            log(shape, {} if name is None else {"name": name})
            return value_fn(shape)
        return f, ["name"]
    if kind == "posonly":
        def f(shape, name=None, /):           # 'name' cannot be passed by keyword: it is not one of the declared optional keywords
            log(shape, {} if name is None else {"name": name})
            return value_fn(shape)
        return f, []
    if kind == "varpos":
        def f(shape, *kw):
            log(shape, {"positional-extra": 1} if kw else {})
            return value_fn(shape)
        return f, []
    if kind == "kwonly":
        def f(shape, *, arg_index=None):
            log(shape, {} if arg_index is None else {"arg_index": arg_index})
            return value_fn(shape)
        return f, ["arg_index"]
    if kind == "varkw":
        def f(shape, **kw):
            log(shape, kw)
            return value_fn(shape)
        return f, list(OPTIONAL)
    if kind == "object":
        class F:
            def __call__(self, shape):
                log(shape, {})
                return value_fn(shape)
        return F(), []
    if kind == "partial":
        def g(scale, shape):
            log(shape, {})
            return value_fn(shape)
        return functools.partial(g, 1.0), []
    if kind == "wrongshape":
        def f(shape):
            log(shape, {})
            return np.ones(tuple(int(s) + 1 for s in shape) or (2,))
        return f, []
    if kind == "wrongtype":
        def f(shape):
            log(shape, {})
            return [[1.0]]
        return f, []
    if kind == "wrongduck":
        class Duck:                           # not a tensor of the backend, although it has .shape and converts to an array
            def __init__(self, a):
                self.a = a
                self.shape = a.shape
                self.dtype = a.dtype
                self.ndim = a.ndim

            def __array__(self, dtype=None, copy=None):
                return self.a

        def f(shape):
            log(shape, {})
            return Duck(np.asarray(value_fn(shape)))
        return f, []
    if kind == "wrongscalar":
        def f(shape):
            log(shape, {})
            v = np.asarray(value_fn(shape))
            return v.reshape(-1)[0] if v.size == 1 and v.ndim == 0 else memoryview(np.ascontiguousarray(v))    # numpy scalar / buffer, not ndarray
        return f, []
    raise KeyError(kind)


def run_item(it):
    import einx
    import einx._src.tracer as tracer
    case, positions, sigkinds, op, seed = it["case"], it["positions"], it["sigkinds"], it["op"], it["seed"]
    rng = np.random.default_rng(seed)
    ins = DC.probe_inputs(case, op, rng)
    desc = DC.desc_of(case)
    sizes = {n: int(v) for n, v in case["L"].items() if n in set(case["desc"])}
    traces, findings = [], []
    shapes = {str(i + 1): [int(s) for s in case["ins"][i]["shape"]] for i in positions}

    orig_opt = tracer.optimize
    current = {"rec": None}

    def counting(*a, **k):
        if current["rec"] is not None:
            current["rec"].events.append({"e": "optimize"})
        return orig_opt(*a, **k)
    tracer.optimize = counting
    try:
        with warnings.catch_warnings():
            warnings.simplefilter("ignore")
            try:
                direct = np.asarray(getattr(einx, op)(desc, *[x.copy() for x in ins], **sizes))
            except Exception:
                return traces, findings, 0
            ncalls = 1

            def one(kind, kinds, graph=False, kw=sizes, label=""):
                rec = Recorder()
                current["rec"] = rec
                args, declared = [], {}
                for i, x in enumerate(ins):
                    if i in positions:
                        f, decl = make_factory(kinds[i], rec, i + 1, lambda shape, x=x: x.copy())
                        args.append(f)
                        declared[str(i + 1)] = decl
                    else:
                        args.append(x.copy())
                rec.events.append({"e": "begin"})
                res, ok, exc = None, True, None
                try:
                    # the backend is named explicitly: with factories only, no tensor is left to select it (C11)
                    res = getattr(einx, op)(desc, *args, graph=True, backend="numpy", **kw) if graph else getattr(einx, op)(desc, *args, backend="numpy", **kw)
                except Exception as e:
                    ok, exc = False, type(e).__name__
                rec.events.append({"e": "end", "ok": ok})
                current["rec"] = None
                traces.append({"kind": kind, "pos": [str(i + 1) for i in positions], "shapes": shapes, "declared": declared, "events": rec.events,
                               "label": label, "desc": desc, "op": op, "exc": exc or "nil"})
                return res, ok, exc

            good = {i: sigkinds[i] for i in positions}
            # graph=True first (cold cache for this signature): nothing may be invoked
            r, ok, exc = one("graph", good, graph=True, label="graph")
            ncalls += 1
            # first real call (miss or hit), then a cached repeat with NEW factory objects of the same signatures
            for label in ("first", "repeat"):
                r, ok, exc = one("run", good, label=label)
                ncalls += 1
                if not ok:
                    findings.append({"kind": "factory-call-fails", "detail": "%s call with factories at %s raised %s but works with tensors" % (label, positions, exc)})
                elif not (np.asarray(r).shape == direct.shape and np.allclose(np.asarray(r, dtype=float), direct.astype(float), equal_nan=True)):
                    findings.append({"kind": "factory-result-differs", "detail": "%s call: result differs from passing the produced tensors directly" % label})
            # same call again with factories of OTHER signatures at the same positions: the cached code of the first
            # signature must not be reused for them
            other = {i: SIGKINDS[(SIGKINDS.index(good[i]) + 1 + 3 * n) % len(SIGKINDS)] for n, i in enumerate(positions)}
            r, ok, exc = one("run", other, label="other-signature")
            ncalls += 1
            if not ok:
                findings.append({"kind": "factory-call-fails", "detail": "call with factories of signatures %s after the same call with %s raised %s" % (other, good, exc)})
            elif not (np.asarray(r).shape == direct.shape and np.allclose(np.asarray(r, dtype=float), direct.astype(float), equal_nan=True)):
                findings.append({"kind": "factory-result-differs", "detail": "other-signature call: result differs from passing the produced tensors directly"})
            # rejected: an under-determined call (no keyword sizes although every tensor is a factory)
            if len(positions) == len(ins) and sizes:
                r, ok, exc = one("rejected", good, kw={}, label="underdetermined")
                ncalls += 1
                if ok:
                    findings.append({"kind": "underdetermined-accepted", "detail": "all tensors are factories and no sizes given, yet the call returned"})
            # wrong return values must make the call fail
            for bad in ("wrongshape", "wrongtype", "wrongduck", "wrongscalar"):
                kinds = dict(good)
                kinds[positions[0]] = bad
                rec_before = len(traces)
                r, ok, exc = one("run", kinds, label=bad)
                ncalls += 1
                traces.pop()   # protocol-wise the factory was invoked and the call failed: not a protocol trace of a good factory
                if ok:
                    findings.append({"kind": "bad-factory-output-accepted", "detail": "factory at position %d returns a %s but the call produced a result" % (positions[0], bad)})
    finally:
        tracer.optimize = orig_opt
    return traces, findings, ncalls


def run_chunk(items):
    out = []
    for it in items:
        try:
            t, f, n = run_item(it)
        except Exception:
            import traceback
            t, f, n = [], [{"kind": "machinery", "detail": traceback.format_exc()[-700:]}], 0
        out.append({"traces": t, "findings": f, "calls": n})
    return out


OPS = {"elementwise": ["add", "multiply"], "dot": ["dot"], "id": ["id"], "reduce": ["sum"], "get_at": ["get_at"]}


def validate(rep, traces):
    d = common.workdir("c13")
    path = os.path.join(d, "traces.ndjson")
    with open(path, "w") as f:
        for t in traces:
            f.write(json.dumps({k: t[k] for k in ("kind", "pos", "shapes", "declared", "events")}) + "\n")
    cfg = common.write_cfg(os.path.join(d, "trace.cfg"), spec="Spec", postcondition="TraceAccepted")
    res = common.run_tlc(os.path.join(SPEC, "Factory.tla"), cfg, workers=1, env={"TRACE_FILE": path})
    rep.add_tlc("Factory.tla trace validation (%d recorded calls)" % len(traces), res)
    acc, rej = None, []
    for line in res.out.splitlines():
        if line.startswith('<<"ACCEPTED"'):
            acc = int(line.strip("<>").split(", ")[1])
        if line.startswith('<<"REJECT"'):
            p = line.strip("<>").split(", ")
            rej.append((int(p[1]), int(p[2])))
    if acc is None:
        raise common.MachineryError("no verdict from Factory.tla\n" + res.out[-2000:])
    return acc, rej


def run(tier):
    rep = common.Report("C13", tier)
    rep.rule = ("corpus cases (elementwise, dot, id with several inputs, reduce, get_at) x non-empty subsets of argument positions x factory signatures "
                "{positional, name=, *, arg_index=, **kw, callable object, functools.partial} x call kinds {graph=True, first, cached repeat with new factory objects, "
                "under-determined, wrong shape, wrong type}; non-trivial = more than one factory, or a signature with optional keywords")
    rep.assumptions = ["numpy backends (default backend only)", "compile phase is delimited by the call to tracer.optimize (once per cache miss, after tracing)"]
    specs = [("elementwise", ["a", "b"], corpus.LENS_QUICK[:1], 2, 2), ("dot", ["a", "b"], corpus.LENS_QUICK[:1], 2, 2),
             ("reduce", ["a", "b", "c"], corpus.LENS_QUICK[:1], 3, 3), ("idcat", ["a", "b"], corpus.LENS_QUICK[:1], 3, 3), ("get_at", ["a", "b"], corpus.LENS_QUICK[:1], 2, 3)]
    cases = corpus.generate(rep, specs)
    if tier == "thorough":
        cases = corpus.cap(cases, 30000)
    rep.exhaustive = True
    step = {"elementwise": 40, "get_at": 25, "reduce": 6, "dot": 2, "id": 3} if tier == "quick" else {"elementwise": 6, "get_at": 4, "reduce": 1, "dot": 1, "id": 1}
    items = []
    k = 0
    for idx, c in enumerate(cases):
        if idx % step.get(c["fam"], 1):
            continue
        n = len(c["ins"])
        if c["fam"] == "id" and len(c["outs"]) != 1:
            continue
        subsets = [s for r in range(1, n + 1) for s in itertools.combinations(range(n), r)]
        if c["fam"] == "get_at":
            subsets = [s for s in subsets if 1 not in s]      # coordinates stay tensors (their values must address the target)
        for s in subsets:
            k += 1
            kinds = {i: SIGKINDS[(k + 3 * i) % len(SIGKINDS)] for i in s}
            items.append({"case": c, "positions": list(s), "sigkinds": kinds, "op": OPS[c["fam"]][k % len(OPS[c["fam"]])], "seed": common.seed() * 31337 + k})
    results = common.parallel_map("run_chunk", sys.modules[__name__], items)
    traces = []
    for it, r in zip(items, results):
        rep.evaluations += r["calls"]
        for t in r["traces"]:
            t["item"] = {"desc": t["desc"], "op": t["op"], "positions": it["positions"], "sigkinds": it["sigkinds"]}
            traces.append(t)
        if len(it["positions"]) > 1 or any(v in ("name", "kwonly", "varkw") for v in it["sigkinds"].values()):
            rep.nontriv(DC.desc_of(it["case"]) + json.dumps([it["positions"], it["sigkinds"]], sort_keys=True))
        for f in r["findings"]:
            if f["kind"] == "machinery":
                raise common.MachineryError(f["detail"])
            rep.violation({"kind": f["kind"], "op": it["op"], "fam": it["case"]["fam"]}, {"item": it},
                          "einx.%s(%r) factories at %s (%s): %s" % (it["op"], DC.desc_of(it["case"]), it["positions"], it["sigkinds"], f["detail"]))
    if not traces:
        raise common.MachineryError("no traces recorded")
    acc, rej = validate(rep, traces)
    rep.validated += acc
    for (t, l) in rej[:10]:
        tr = traces[t - 1]
        ev = tr["events"][l - 1] if l - 1 < len(tr["events"]) else None
        rep.violation({"kind": "protocol-trace-rejected", "call_kind": tr["kind"], "label": tr["label"], "event": (ev or {}).get("e")},
                      {"trace": tr, "first_unmatched_event": l},
                      "einx.%s(%r) [%s, %s]: recorded factory events are not a behaviour of Factory.tla at event %d: %s (expected shapes %s, declared %s)" % (
                          tr["op"], tr["desc"], tr["kind"], tr["label"], l, ev, tr["shapes"], tr["declared"]))
    # negative control: corrupt recorded shapes / duplicate an invocation
    import copy
    bad = []
    for t in traces[:60]:
        t2 = copy.deepcopy(t)
        inv = [e for e in t2["events"] if e["e"] == "invoke"]
        if inv:
            inv[0]["shape"] = [s + 1 for s in inv[0]["shape"]] or [1]
            bad.append(t2)
    if bad:
        acc2, rej2 = validate(rep, bad)
        if len(rej2) != len(bad):
            raise common.MachineryError("negative control failed: %d corrupted traces, %d rejected" % (len(bad), len(rej2)))
        rep.extra["negative_control"] = {"corrupted": len(bad), "rejected": len(rej2)}
    rep.sample({"trace": {k: traces[0][k] for k in ("kind", "pos", "shapes", "declared", "events", "desc", "op")}})
    rep.sample({"trace": {k: traces[len(traces) // 2][k] for k in ("kind", "pos", "shapes", "declared", "events", "desc", "op")}})
    return rep.finish()


def replay(path):
    with open(path) as f:
        v = json.load(f)
    it = v["case"].get("item")
    if it and "case" in it:
        t, f2, n = run_item(it)
        print(f2)
        if f2:
            print("VIOLATION property=C13 replay=%s" % path)
            return 1
        return 0
    print(json.dumps(v, indent=1)[:3000])
    return 1
