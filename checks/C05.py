"""C05 - graph optimisation never changes what an operation computes, and terminates.

Explore : Optimize.tla gives the rewrite rules a meaning as index maps (flat output position -> flat input position) and
          TLC checks on ALL pairs of permutations up to rank 4 (quick) / 5 (thorough), on shapes with distinct AND with
          coinciding lengths: merging two transposes by new[i] = p1[p2[i]] preserves the map, only the identity
          permutation is a no-op, merged permutations are permutations.
Validate: every rewrite the REAL optimiser performs is recorded (rule, permutations, shapes, replacement; passes; graph
          size before every pass) - for all corpus calls and for synthetic chains of transposes / reshapes / broadcasts
          over all permutation pairs with shared intermediate values - and TLC decides with Trace_Optimize.tla that each
          firing is an instance of a rule with exactly those arguments on exactly those shapes and that the pass count
          respects the termination measure.
Replay  : each synthetic chain is compiled with and without optimisation and both functions are executed on tensors
          with distinct values (equal results required)."""
import itertools
import json
import os
import sys
import warnings

import numpy as np

import common
import corpus
import drive_calls as DC
import record_opt

SPEC = common.SPEC
OPS = {"id": ["id"], "elementwise": ["add", "less"], "reduce": ["sum", "max"], "dot": ["dot"], "preserve": ["flip", "softmax", "sort"],
       "argfind": ["argmax"], "get_at": ["get_at"], "update_at": ["add_at", "set_at"]}


def real_calls_chunk(items):
    import einx
    record_opt.install()
    out = []
    for it in items:
        case, op = it["case"], it["op"]
        rng = np.random.default_rng(it["seed"])
        ins = DC.probe_inputs(case, op, rng)
        sizes = {n: int(v) for n, v in case["L"].items() if n in set(case["desc"])}
        kw = {"shift": 1} if op == "roll" else {}
        recs = []
        for backend in DC.BACKENDS:
            try:
                with warnings.catch_warnings():
                    warnings.simplefilter("ignore")
                    getattr(einx, op)(DC.desc_of(case), *ins, backend=backend, graph=True, **sizes, **kw)
            except Exception:
                pass
            for r in record_opt.drain():
                r["meta"] = {"desc": DC.desc_of(case), "op": op, "backend": backend}
                recs.append(r)
        out.append(recs)
    return out


def synthetic_chunk(items):
    """chains built with the real tracer: x -T(p1)-> y -T(p2)-> z (+ reshape / broadcast / shared intermediate)"""
    import einx
    import einx._src.tracer as tracer
    record_opt.install()
    npx = tracer.signature.numpy()
    opts = einx.backend.get("numpy").optimizations
    out = []
    for it in items:
        shape, p1, p2, variant = tuple(it["shape"]), tuple(it["p1"]), tuple(it["p2"]), it["variant"]
        x = tracer.signature.classical.Tensor(None, shape=shape)
        y = npx.transpose(x, p1)
        z = npx.transpose(y, p2)
        if variant == "plain":
            outp = z
        elif variant == "shared":
            outp = (z, npx.reshape(y, (int(np.prod(shape)),)))          # y has a second consumer
        elif variant == "reshape":
            w = npx.reshape(z, (int(np.prod(shape)),))
            outp = npx.reshape(w, tuple(z.shape))
        else:
            outp = npx.broadcast_to(npx.transpose(z, tuple(range(len(shape)))), tuple(z.shape))
        g = tracer.Graph(inputs=[x], output=outp, name="op")
        f0, c0 = tracer.compiler.python.compile(g, return_code=True)
        g2 = tracer.optimize(g, optimizations=opts)
        f1, c1 = tracer.compiler.python.compile(g2, return_code=True)
        recs = record_opt.drain()
        a = np.arange(int(np.prod(shape)), dtype=np.int64).reshape(shape)
        r0, r1 = f0(a), f1(a)
        r0 = r0 if isinstance(r0, tuple) else (r0,)
        r1 = r1 if isinstance(r1, tuple) else (r1,)
        same = len(r0) == len(r1) and all(np.asarray(u).shape == np.asarray(v).shape and np.array_equal(u, v) for u, v in zip(r0, r1))
        for r in recs:
            r["meta"] = {"synthetic": it, "code_before": c0, "code_after": c1}
        out.append({"recs": recs, "same": bool(same), "code_before": c0, "code_after": c1})
    return out


def validate(rep, recs, rank):
    d = common.workdir("c05")
    nsh = min(16, max(1, len(recs) // 500))
    shards = [recs[i::nsh] for i in range(nsh)]
    import concurrent.futures as cf

    def one(i):
        path = os.path.join(d, "recs_%d.ndjson" % i)
        with open(path, "w") as f:
            for r in shards[i]:
                f.write(json.dumps({k: r[k] for k in ("fires", "passes", "sizes")}) + "\n")
        cfgp = os.path.join(d, "t_%d.cfg" % i)
        with open(cfgp, "w") as f:
            f.write("SPECIFICATION Spec\nCONSTANTS\n  Rank = %d\n  TestShapes = {}\nCONSTRAINT Chk\nCHECK_DEADLOCK FALSE\n" % rank)
        return common.run_tlc(os.path.join(SPEC, "Trace_Optimize.tla"), cfgp, workers=1, env={"TRACE_FILE": path})
    with cf.ThreadPoolExecutor(nsh) as ex:
        results = list(ex.map(one, range(nsh)))
    ok, bad = 0, []
    for i, res in enumerate(results):
        rep.add_tlc("Trace_Optimize.tla shard %d (%d optimise calls)" % (i, len(shards[i])), res)
        if res.distinct != len(shards[i]):
            raise common.MachineryError("Trace_Optimize consumed %d of %d records\n%s" % (res.distinct, len(shards[i]), res.out[-1500:]))
        flagged = 0
        for line in res.out.splitlines():
            if line.startswith('<<"BADREWRITE"'):
                bad.append(shards[i][int(line.strip("<>").split(", ")[1]) - 1])
                flagged += 1
        ok += len(shards[i]) - flagged
    return ok, bad


def run(tier):
    rep = common.Report("C05", tier)
    rep.rule = ("rule theorems on all permutation pairs up to the rank bound x test shapes (distinct and coinciding lengths); recorded optimise calls of corpus cases "
                "(all backends) and of synthetic chains over all permutation pairs x {plain, shared intermediate, reshape round trip, nop transpose + nop broadcast}; "
                "non-trivial = optimise calls in which at least one rule fired")
    rep.assumptions = ["numpy optimisation list (SkipReshape, SkipTranspose, SkipBroadcastTo, SkipConcatenate, InlineGraph, SkipCast)",
                       "SkipCast / InlineGraph firings are accepted as such (their soundness is covered end-to-end by C01 and C04)"]
    rank = 4 if tier == "quick" else 5
    shapes = [(2,), (2, 3), (2, 2), (2, 3, 4), (2, 2, 2), (3, 2, 3), (2, 3, 2, 3), (2, 2, 2, 2)] + ([(2, 3, 4, 5), (2, 2, 2, 2, 2)] if tier == "thorough" else [])
    d = common.workdir("c05")
    with open(os.path.join(d, "MC_Opt.tla"), "w") as f:
        f.write("---- MODULE MC_Opt ----\nEXTENDS MC_Optimize\nMCShapes == {%s}\n====\n" % ", ".join(common.tla_expr(list(s)) for s in shapes))
    with open(os.path.join(d, "MC_Opt.cfg"), "w") as f:
        f.write("SPECIFICATION Spec\nCONSTANTS\n  Rank = %d\n  TestShapes <- MCShapes\nINVARIANT C05_MergeTransposeSound\nINVARIANT C05_NopTransposeExact\nINVARIANT C05_MergedIsPerm\nCHECK_DEADLOCK FALSE\n" % rank)
    res = common.run_tlc(os.path.join(d, "MC_Opt.tla"), os.path.join(d, "MC_Opt.cfg"), timeout=2400)
    rep.add_tlc("Optimize.tla rule theorems, rank <= %d" % rank, res)
    rep.exhaustive = res.rc == 0
    if res.violated:
        rep.violation({"kind": "model", "invariant": res.violated}, {}, "TLC: rule theorem %s fails\n%s" % (res.violated, res.counterexample()[:2000]))
    # synthetic chains: all permutation pairs
    synth = []
    for shape in [(2, 2), (2, 3), (2, 2, 2), (2, 3, 2)] + ([(2, 2, 2, 2)] if tier == "thorough" else []):
        perms = list(itertools.permutations(range(len(shape))))
        for p1 in perms:
            for p2 in perms:
                for variant in ("plain", "shared", "reshape", "nops"):
                    synth.append({"shape": shape, "p1": p1, "p2": p2, "variant": variant})
    sres = common.parallel_map("synthetic_chunk", sys.modules[__name__], synth)
    recs = []
    for it, r in zip(synth, sres):
        rep.replayed += 1
        rep.evaluations += 2
        recs.extend(r["recs"])
        if not r["same"]:
            rep.violation({"kind": "optimised-graph-differs", "variant": it["variant"]}, {"synthetic": it, "code_before": r["code_before"], "code_after": r["code_after"]},
                          "optimised and unoptimised graph disagree for shape %s, transpose %s then %s (%s):\n%s\n--- optimised:\n%s" % (it["shape"], it["p1"], it["p2"], it["variant"], r["code_before"], r["code_after"]))
    # real calls
    specs = corpus.quick_specs() if tier == "quick" else corpus.thorough_specs()
    cases = corpus.generate(rep, specs)
    if tier == "quick":
        keep = {"elementwise": 16, "update_at": 30, "get_at": 10, "id": 6, "preserve": 4, "argfind": 4, "reduce": 2}
        cases = [c for i, c in enumerate(cases) if i % keep.get(c["fam"], 1) == 0]
    items = [{"case": c, "op": OPS[c["fam"]][i % len(OPS[c["fam"]])], "seed": i} for i, c in enumerate(cases)]
    for rr in common.parallel_map("real_calls_chunk", sys.modules[__name__], items):
        recs.extend(rr)
        rep.evaluations += 3
    ok, bad = validate(rep, recs, rank)
    rep.validated += ok
    fired = {}
    for r in recs:
        if r["fires"]:
            rep.nontriv(json.dumps([r["fires"], r["passes"]])[:300])
        for f in r["fires"]:
            fired[f["rule"]] = fired.get(f["rule"], 0) + 1
    rep.extra["rule_firings"] = fired
    rep.extra["max_passes"] = max((r["passes"] for r in recs), default=0)
    for r in bad[:20]:
        badf = [f for f in r["fires"]]
        rep.violation({"kind": "rewrite-not-a-rule-instance", "rules": sorted({f["rule"] for f in badf})}, {"record": r},
                      "a rewrite performed by the optimiser is not an instance of a specification rule (or the pass count violates the measure): %s ; %s" % (json.dumps(r["fires"])[:500], json.dumps(r.get("meta", {}))[:300]))
    if recs:
        rr = [r for r in recs if r["fires"]][:2]
        for r in rr:
            rep.sample({"fires": r["fires"], "passes": r["passes"], "sizes": r["sizes"]})
    return rep.finish()


def replay(path):
    with open(path) as f:
        v = json.load(f)
    if "synthetic" in v["case"]:
        r = synthetic_chunk([v["case"]["synthetic"]])[0]
        print(r["same"], r["code_after"])
        if not r["same"]:
            print("VIOLATION property=C05 replay=%s" % path)
            return 1
        return 0
    print(json.dumps(v, indent=1)[:3000])
    return 1
