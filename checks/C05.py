"""C05 - graph optimisation never changes what an operation computes, and terminates.

Explore : Optimize.tla gives the rewrite rules a meaning as index maps (flat output position -> flat input position) and
          TLC checks on ALL pairs of permutations up to rank 4 (quick) / 5 (thorough), on shapes with distinct AND with
          coinciding lengths: merging two transposes by new[i] = p1[p2[i]] preserves the map, only the identity
          permutation is a no-op, merged permutations are permutations.
Validate: every rewrite the REAL optimiser performs is recorded (rule, permutations, shapes, replacement; passes; graph
          size before every pass) - for all corpus calls and for synthetic chains of transposes / reshapes / broadcasts
          over all permutation pairs with shared intermediate values - and TLC decides with Trace_Optimize.tla that each
          firing is an instance of a rule with exactly those arguments on exactly those shapes and that the pass count
          respects the termination measure.
Replay  : each synthetic chain is compiled with and without optimisation and both functions are executed on tensors
          with distinct values (equal results required)."""
import itertools
import json
import os
import sys
import warnings

import numpy as np

import common
import corpus
import drive_calls as DC
import record_opt

SPEC = common.SPEC
OPS = {"id": ["id"], "elementwise": ["add", "less"], "reduce": ["sum", "max"], "dot": ["dot"], "preserve": ["flip", "softmax", "sort"],
       "argfind": ["argmax"], "get_at": ["get_at"], "update_at": ["add_at", "set_at"]}


def real_calls_chunk(items):
    import einx
    record_opt.install()
    out = []
    for it in items:
        if "adapter" in it:
            # adapted user functions: the traced graph carries assertions on the function's output; whatever the optimiser
            # does with such a graph (e.g. inlining a wrapper) is recorded and validated like every other rewrite
            recs = []
            x, y = np.arange(6.0).reshape(2, 3), np.arange(6.0).reshape(2, 3) + 1
            fe = einx.numpy.adapt_numpylike_elementwise(lambda a, b: a * 2 + b)
            fr = einx.numpy.adapt_numpylike_reduce(np.sum)
            for desc, f, args in [("a b, a b", fe, (x, y)), ("a b, a b -> a b", fe, (x, y)), ("a b, b a -> a b", fe, (x, y.T)), ("a b, b -> a b", fe, (x, y[0])),
                                  ("a [b]", fr, (x,)), ("[a] b -> b", fr, (x,))]:
                try:
                    f(desc, *args, graph=True)
                except Exception:
                    pass
                for r in record_opt.drain():
                    r["meta"] = {"desc": desc, "op": "adapter", "backend": "numpy"}
                    recs.append(r)
            out.append(recs)
            continue
        case, op = it["case"], it["op"]
        rng = np.random.default_rng(it["seed"])
        ins = DC.probe_inputs(case, op, rng)
        sizes = {n: int(v) for n, v in case["L"].items() if n in set(case["desc"])}
        kw = {"shift": 1} if op == "roll" else {}
        recs = []
        for backend in DC.BACKENDS:
            try:
                with warnings.catch_warnings():
                    warnings.simplefilter("ignore")
                    getattr(einx, op)(DC.desc_of(case), *ins, backend=backend, graph=True, **sizes, **kw)
            except Exception:
                pass
            for r in record_opt.drain():
                r["meta"] = {"desc": DC.desc_of(case), "op": op, "backend": backend}
                recs.append(r)
        out.append(recs)
    return out


def synthetic_chunk(items):
    """chains built with the real tracer: x -T(p1)-> y -T(p2)-> z (+ reshape / broadcast / shared intermediate)"""
    import einx
    import einx._src.tracer as tracer
    record_opt.install()
    npx = tracer.signature.numpy()
    opts = einx.backend.get("numpy").optimizations
    out = []
    for it in items:
        shape, p1, p2, variant = tuple(it["shape"]), tuple(it["p1"]), tuple(it["p2"]), it["variant"]
        x = tracer.signature.classical.Tensor(None, shape=shape)
        y = npx.transpose(x, p1)
        z = npx.transpose(y, p2)
        if variant == "plain":
            outp = z
        elif variant == "shared":
            outp = (z, npx.reshape(y, (int(np.prod(shape)),)))          # y has a second consumer
        elif variant == "reshape":
            w = npx.reshape(z, (int(np.prod(shape)),))
            outp = npx.reshape(w, tuple(z.shape))
        else:
            outp = npx.broadcast_to(npx.transpose(z, tuple(range(len(shape)))), tuple(z.shape))
        g = tracer.Graph(inputs=[x], output=outp, name="op")
        f0, c0 = tracer.compiler.python.compile(g, return_code=True)
        g2 = tracer.optimize(g, optimizations=opts)
        f1, c1 = tracer.compiler.python.compile(g2, return_code=True)
        recs = record_opt.drain()
        a = np.arange(int(np.prod(shape)), dtype=np.int64).reshape(shape)
        r0, r1 = f0(a), f1(a)
        r0 = r0 if isinstance(r0, tuple) else (r0,)
        r1 = r1 if isinstance(r1, tuple) else (r1,)
        same = len(r0) == len(r1) and all(np.asarray(u).shape == np.asarray(v).shape and np.array_equal(u, v) for u, v in zip(r0, r1))
        for r in recs:
            r["meta"] = {"synthetic": it, "code_before": c0, "code_after": c1}
        out.append({"recs": recs, "same": bool(same), "code_before": c0, "code_after": c1})
    return out


IN_SHAPES = [[2, 3], [3], [2, 2], [2, 2]]
SHAPE_POOL = [[6], [3, 2], [2, 3], [1, 3], [3], [3, 3], [2, 2, 2], [2, 2], [4], [2, 1, 3], [1, 2, 2]]


def optterms(rep, tier):
    """OptTerms.tla: TLC builds every movement term up to the depth bound, checks rule soundness and the termination measure
    on all of its rewrites, and exports it with its meaning"""
    import hashlib
    import drive_opt
    depth = 2 if tier == "quick" else 3
    cdir = os.path.join(common.VERIF, ".work", "cache")
    os.makedirs(cdir, exist_ok=True)
    with open(os.path.join(SPEC, "OptTerms.tla"), "rb") as f1, open(os.path.join(SPEC, "Optimize.tla"), "rb") as f2:
        key = hashlib.sha1(f1.read() + f2.read() + json.dumps([IN_SHAPES, SHAPE_POOL, depth]).encode()).hexdigest()[:20]
    cpath = os.path.join(cdir, "optterms_%s.json" % key)
    d = common.workdir("c05ot")
    nsh = 1           # depth 3: 11 327 terms, 27 k states, about 70 s with 8 workers
    with open(os.path.join(d, "MC_OT.tla"), "w") as f:
        f.write("---- MODULE MC_OT ----\nEXTENDS OptTerms\nMCIn == %s\nMCPool == {%s}\n====\n" % (common.tla_expr(IN_SHAPES), ", ".join(common.tla_expr(x) for x in SHAPE_POOL)))

    def cfg(name, shard, extra):
        path = os.path.join(d, name + ".cfg")
        with open(path, "w") as f:
            f.write("\n".join(["SPECIFICATION Spec", "CONSTANTS", "  Rank = 1", "  TestShapes = {}", "  InShapes <- MCIn", "  ShapePool <- MCPool", "  MaxDepth = %d" % depth,
                               "  MaxElems = 12", "  Shard = %d" % shard, "  NShards = %d" % nsh] + extra + ["CHECK_DEADLOCK FALSE"]) + "\n")
        return path
    # vacuity guard: TLC must refute that a rank-increasing broadcast with matching leading dimensions is a no-op
    res = common.run_tlc(os.path.join(d, "MC_OT.tla"), cfg("vac", 0, ["INVARIANT RankIncreasingBroadcastIsNop"]), workers=4, timeout=900)
    if res.violated != "RankIncreasingBroadcastIsNop":
        raise common.MachineryError("vacuity guard not refuted on OptTerms.tla\n" + res.out[-1500:])
    rep.extra["optterms_vacuity_guard_refuted"] = True
    if os.path.exists(cpath) and not os.environ.get("VERIF_NO_CACHE"):
        with open(cpath) as f:
            dd = json.load(f)
        for r in dd["tlc_runs"]:
            rep.tlc_runs.append(dict(r, cached=True))
            rep.states += r.get("distinct_states", 0)
            rep.transitions += r.get("states_generated", 0)
        terms = dd["terms"]
    else:
        import concurrent.futures as cf
        n0 = len(rep.tlc_runs)
        terms = []

        def one(sh):
            return common.run_tlc(os.path.join(d, "MC_OT.tla"), cfg("ot_%d" % sh, sh, ["CONSTRAINT Emit", "INVARIANT C05_RulesSoundHere", "PROPERTY C05_Measure"]),
                                  workers=8, timeout=3000)
        bad = False
        with cf.ThreadPoolExecutor(nsh) as ex:
            for sh, res in enumerate(ex.map(one, range(nsh))):
                if sh == 0:
                    rep.add_tlc("OptTerms.tla depth <= %d (shard 0 of %d; every shard explores all terms and rewrites)" % (depth, nsh), res)
                if res.violated:
                    bad = True
                    rep.violation({"kind": "model", "invariant": res.violated}, {}, "TLC: %s violated on OptTerms.tla\n%s" % (res.violated, res.counterexample()[:2500]))
                elif res.error or res.rc != 0:
                    raise common.MachineryError("OptTerms.tla shard %d failed\n%s" % (sh, res.out[-2000:]))
                terms.extend(res.printed("OT"))
        if not bad:
            tmp = cpath + ".%d.tmp" % os.getpid()
            with open(tmp, "w") as f:
                json.dump({"terms": terms, "tlc_runs": rep.tlc_runs[n0:]}, f)
            os.replace(tmp, cpath)
    rep.extra["optterms"] = {"terms": len(terms), "with_redex": sum(1 for t in terms if t["redexes"] > 0), "depth": depth}
    if tier == "thorough" and len(terms) > 40000:
        terms = terms[:: (len(terms) // 40000 + 1)]
    items = [{"rec": t, "inshapes": IN_SHAPES} for t in terms]
    results = common.parallel_map("run_chunk", drive_opt, items)
    changed = 0
    for it, r in zip(items, results):
        rep.replayed += 1
        rep.evaluations += 3
        changed += bool(r["info"].get("changed"))
        if it["rec"]["redexes"] > 0:
            rep.nontriv(json.dumps(it["rec"]["term"]))
        for f in r["findings"]:
            if f["kind"] == "machinery":
                raise common.MachineryError(f["detail"])
            kinds = sorted({k for k in json.dumps(it["rec"]["term"]).replace('"', " ").split() if k in ("T", "R", "B", "C", "sub")})
            rep.violation({"kind": f["kind"], "where": "OptTerms.tla term", "root": it["rec"]["term"]["k"], "node_kinds": kinds},
                          {"optterm": it["rec"], "inshapes": IN_SHAPES},
                          "%s: %s\n--- unoptimised:\n%s\n--- optimised:\n%s" % (drive_opt.describe(it["rec"]["term"]), f["detail"], r["info"].get("code_before", "")[:500], r["info"].get("code_after", "")[:500]))
    rep.extra["optterms"]["changed_by_real_optimiser"] = changed
    if terms:
        t = terms[len(terms) // 2]
        rep.sample({"term": drive_opt.describe(t["term"]), "shape": t["shape"], "meaning_first_positions": t["sem"][:3], "redexes": t["redexes"]})


def validate(rep, recs, rank):
    d = common.workdir("c05")
    nsh = min(16, max(1, len(recs) // 500))
    shards = [recs[i::nsh] for i in range(nsh)]
    import concurrent.futures as cf

    def one(i):
        path = os.path.join(d, "recs_%d.ndjson" % i)
        with open(path, "w") as f:
            for r in shards[i]:
                f.write(json.dumps({k: r[k] for k in ("fires", "passes", "sizes")}) + "\n")
        cfgp = os.path.join(d, "t_%d.cfg" % i)
        with open(cfgp, "w") as f:
            f.write("SPECIFICATION Spec\nCONSTANTS\n  Rank = %d\n  TestShapes = {}\nCONSTRAINT Chk\nCHECK_DEADLOCK FALSE\n" % rank)
        return common.run_tlc(os.path.join(SPEC, "Trace_Optimize.tla"), cfgp, workers=1, env={"TRACE_FILE": path})
    with cf.ThreadPoolExecutor(nsh) as ex:
        results = list(ex.map(one, range(nsh)))
    ok, bad = 0, []
    for i, res in enumerate(results):
        rep.add_tlc("Trace_Optimize.tla shard %d (%d optimise calls)" % (i, len(shards[i])), res)
        if res.distinct != len(shards[i]):
            raise common.MachineryError("Trace_Optimize consumed %d of %d records\n%s" % (res.distinct, len(shards[i]), res.out[-1500:]))
        flagged = 0
        for line in res.out.splitlines():
            if line.startswith('<<"BADREWRITE"'):
                bad.append(shards[i][int(line.strip("<>").split(", ")[1]) - 1])
                flagged += 1
        ok += len(shards[i]) - flagged
    return ok, bad


def run(tier):
    rep = common.Report("C05", tier)
    rep.rule = ("rule theorems on all permutation pairs up to the rank bound x test shapes (distinct and coinciding lengths); recorded optimise calls of corpus cases "
                "(all backends) and of synthetic chains over all permutation pairs x {plain, shared intermediate, reshape round trip, nop transpose + nop broadcast}; "
                "non-trivial = optimise calls in which at least one rule fired")
    rep.assumptions = ["numpy optimisation list (SkipReshape, SkipTranspose, SkipBroadcastTo, SkipConcatenate, InlineGraph, SkipCast)",
                       "SkipCast / InlineGraph firings are accepted as such (their soundness is covered end-to-end by C01 and C04)"]
    import suite
    sh = suite.start()       # the repository's own tests run under the optimiser recorder while the rest of the check works
    rank = 4 if tier == "quick" else 5
    shapes = [(2,), (2, 3), (2, 2), (2, 3, 4), (2, 2, 2), (3, 2, 3), (2, 3, 2, 3), (2, 2, 2, 2)] + ([(2, 3, 4, 5), (2, 2, 2, 2, 2)] if tier == "thorough" else [])
    d = common.workdir("c05")
    with open(os.path.join(d, "MC_Opt.tla"), "w") as f:
        f.write("---- MODULE MC_Opt ----\nEXTENDS MC_Optimize\nMCShapes == {%s}\n====\n" % ", ".join(common.tla_expr(list(s)) for s in shapes))
    with open(os.path.join(d, "MC_Opt.cfg"), "w") as f:
        f.write("SPECIFICATION Spec\nCONSTANTS\n  Rank = %d\n  TestShapes <- MCShapes\nINVARIANT C05_MergeTransposeSound\nINVARIANT C05_NopTransposeExact\nINVARIANT C05_MergedIsPerm\nCHECK_DEADLOCK FALSE\n" % rank)
    res = common.run_tlc(os.path.join(d, "MC_Opt.tla"), os.path.join(d, "MC_Opt.cfg"), timeout=2400)
    rep.add_tlc("Optimize.tla rule theorems, rank <= %d" % rank, res)
    rep.exhaustive = res.rc == 0
    if res.violated:
        rep.violation({"kind": "model", "invariant": res.violated}, {}, "TLC: rule theorem %s fails\n%s" % (res.violated, res.counterexample()[:2000]))
    # synthetic chains: all permutation pairs
    synth = []
    for shape in [(2, 2), (2, 3), (2, 2, 2), (2, 3, 2)] + ([(2, 2, 2, 2)] if tier == "thorough" else []):
        perms = list(itertools.permutations(range(len(shape))))
        for p1 in perms:
            for p2 in perms:
                for variant in ("plain", "shared", "reshape", "nops"):
                    synth.append({"shape": shape, "p1": p1, "p2": p2, "variant": variant})
    sres = common.parallel_map("synthetic_chunk", sys.modules[__name__], synth)
    recs = []
    for it, r in zip(synth, sres):
        rep.replayed += 1
        rep.evaluations += 2
        recs.extend(r["recs"])
        if not r["same"]:
            rep.violation({"kind": "optimised-graph-differs", "variant": it["variant"]}, {"synthetic": it, "code_before": r["code_before"], "code_after": r["code_after"]},
                          "optimised and unoptimised graph disagree for shape %s, transpose %s then %s (%s):\n%s\n--- optimised:\n%s" % (it["shape"], it["p1"], it["p2"], it["variant"], r["code_before"], r["code_after"]))
    # movement terms built by TLC (reshape / transpose / broadcast_to / concatenate / subtract, shared sub-terms, permuted wrapper arguments)
    optterms(rep, tier)
    # real calls
    specs = corpus.quick_specs() if tier == "quick" else corpus.thorough_specs()
    cases = corpus.generate(rep, specs)
    if tier == "thorough":
        cases = corpus.cap(cases, 40000)
    if tier == "quick":
        keep = {"elementwise": 16, "update_at": 30, "get_at": 10, "id": 6, "preserve": 4, "argfind": 4, "reduce": 2}
        cases = [c for i, c in enumerate(cases) if i % keep.get(c["fam"], 1) == 0]
    items = [{"case": c, "op": OPS[c["fam"]][i % len(OPS[c["fam"]])], "seed": i} for i, c in enumerate(cases)]
    items.append({"adapter": True})
    for rr in common.parallel_map("real_calls_chunk", sys.modules[__name__], items):
        recs.extend(rr)
        rep.evaluations += 3
    # every optimise call the repository's own test suite performs is validated as well (the tests assert shapes only)
    srecs = suite.finish(sh, rep, "opt")
    rep.extra["optimise_calls_recorded_from_repository_tests"] = len(srecs)
    recs.extend(srecs)
    ok, bad = validate(rep, recs, rank)
    rep.validated += ok
    fired = {}
    for r in recs:
        if r["fires"]:
            rep.nontriv(json.dumps([r["fires"], r["passes"]])[:300])
        for f in r["fires"]:
            fired[f["rule"]] = fired.get(f["rule"], 0) + 1
    rep.extra["rule_firings"] = fired
    modelled = {"SkipTranspose.nop", "SkipTranspose.merge", "SkipReshape.nop", "SkipReshape.merge", "SkipBroadcastTo.nop", "SkipConcatenate.single", "InlineGraph", "SkipCast"}
    rep.extra["firings_of_rules_the_specification_does_not_model"] = {k: v for k, v in fired.items() if k not in modelled}
    rep.extra["max_passes"] = max((r["passes"] for r in recs), default=0)
    for r in bad[:20]:
        badf = [f for f in r["fires"]]
        rep.violation({"kind": "rewrite-not-a-rule-instance", "rules": sorted({f["rule"] for f in badf})}, {"record": r},
                      "a rewrite performed by the optimiser is not an instance of a specification rule (or the pass count violates the measure): %s ; %s" % (json.dumps(r["fires"])[:500], json.dumps(r.get("meta", {}))[:300]))
    if recs:
        rr = [r for r in recs if r["fires"]][:2]
        for r in rr:
            rep.sample({"fires": r["fires"], "passes": r["passes"], "sizes": r["sizes"]})
    return rep.finish()


def replay(path):
    with open(path) as f:
        v = json.load(f)
    if "optterm" in v["case"]:
        import drive_opt
        f, info = drive_opt.run_term(v["case"]["optterm"], v["case"]["inshapes"])
        print(drive_opt.describe(v["case"]["optterm"]["term"]), f)
        if f:
            print("VIOLATION property=C05 replay=%s" % path)
            return 1
        return 0
    if "synthetic" in v["case"]:
        r = synthetic_chunk([v["case"]["synthetic"]])[0]
        print(r["same"], r["code_after"])
        if not r["same"]:
            print("VIOLATION property=C05 replay=%s" % path)
            return 1
        return 0
    print(json.dumps(v, indent=1)[:3000])
    return 1
