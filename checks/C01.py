"""C01 - every built-in operation computes exactly its loop-notation meaning.

Explore : Cases.tla enumerates well-formed calls of every operation family (rearrangement incl. diagonals, squeeze,
          broadcast, flatten, concat/split; elementwise; reductions; dot; shape-preserving ops; argmax/argmin; get_at;
          update_at) under several axis-length assignments (unit axes, equal lengths, distinct lengths), and Loop.tla
          gives each its denotation: per loop iteration the flat positions of every input/output sub-tensor.  TLC checks
          WellDefinedInv on every case (each output position written exactly once, everything in range).
Replay  : every exported case is executed with the real einx, for the operations of its family and all three numpy
          backends, on tensors with pairwise distinct values and compared element by element with the denotation
          executed by loopref (gather / numpy elementary function / scatter).  Allowed outcomes: the denoted value, or
          OperationNotSupportedError."""
import json
import os

import common
import corpus
import drive_calls as DC


def select_ops(case, idx, tier):
    ops = DC.FAMILY_OPS[case["fam"]]
    if len(ops) <= 3 or tier == "thorough":
        return ops
    n = len(ops)
    return sorted({ops[idx % n], ops[(idx * 7 + 3) % n]}, key=ops.index)


def replay_cases(rep, prop, cases, tier, ops_fn=select_ops, backends=None, check_fn=None):
    items = []
    for idx, c in enumerate(cases):
        items.append({"case": c, "ops": ops_fn(c, idx, tier), "backends": backends, "seed": common.seed() * 1000003 + idx})
    results = common.parallel_map("run_chunk", DC, items)
    calls = ns = 0
    per_op = {}
    for it, r in zip(items, results):
        c = it["case"]
        rep.replayed += 1
        calls += r["stats"]["calls"]
        ns += r["stats"]["notsupported"]
        feats = DC.features(c)
        if feats:
            rep.nontriv(DC.desc_of(c) + json.dumps(c["L"], sort_keys=True))
        for op in it["ops"]:
            per_op[op] = per_op.get(op, 0) + 1
        for f in r["findings"]:
            if f["kind"] == "machinery":
                raise common.MachineryError("replay machinery failed on %s: %s" % (DC.desc_of(c), f["detail"]))
            sig = {"kind": f["kind"], "fam": c["fam"], "op": f["op"], "backend": f["backend"], "features": feats}
            rep.violation(sig, {"case": c, "op": f["op"], "backend": f["backend"]},
                          "einx.%s(%r, backend=%r) with %s: %s" % (f["op"], DC.desc_of(c), f["backend"], {k: v for k, v in c["L"].items() if k in set(c["desc"])}, f["detail"]))
    rep.evaluations += calls
    rep.extra["calls"] = rep.extra.get("calls", 0) + calls
    rep.extra["operation_not_supported"] = rep.extra.get("operation_not_supported", 0) + ns
    rep.extra["cases_per_operation"] = per_op
    return results


def run(tier):
    rep = common.Report("C01", tier)
    rep.rule = ("cases = all expressions of Cases.tla within the dimension/leaf bounds, per family and length assignment; a case is counted "
                "non-trivial when it has a repeated name, a parenthesised or concatenated axis, a literal 1, a unit-length axis or two axes of equal length")
    rep.assumptions = ["only the numpy backends are importable (numpy, numpy.numpylike, numpy.einsum)",
                       "numpy elementary functions are trusted; float results compared with rtol 1e-6",
                       "expressions are enumerated as trees and printed into the notation; parsing of arbitrary strings is C12's business"]
    rep.exhaustive = True
    specs = corpus.quick_specs() if tier == "quick" else corpus.thorough_specs()
    import time
    t0 = time.time()
    cases = corpus.generate(rep, specs, timeout=900 if tier == "quick" else 3000)
    if tier == "thorough":
        cases = corpus.cap(cases, 60000)
    rep.extra["generate_s"] = round(time.time() - t0, 1)
    if tier == "quick":
        keep = {"elementwise": 4, "update_at": 10, "get_at": 2, "id": 2}      # quick: every k-th case of the largest families
        cases = [c for i, c in enumerate(cases) if i % keep.get(c["fam"], 1) == 0]
    fams = {}
    for c in cases:
        fams[c["fam"]] = fams.get(c["fam"], 0) + 1
    rep.extra["cases_per_family"] = fams
    replay_cases(rep, "C01", cases, tier)
    for c in (cases[0], cases[len(cases) // 2], cases[-1]):
        rep.sample({"fam": c["fam"], "description": DC.desc_of(c), "lengths": {k: v for k, v in c["L"].items() if k in set(c["desc"])},
                    "first_group": c["groups"][0], "n_groups": len(c["groups"])})
    return rep.finish()


def replay(path):
    with open(path) as f:
        v = json.load(f)
    c = v["case"]["case"]
    f, st = DC.run_case(c, ops=[v["case"]["op"]], backends=[v["case"]["backend"]])
    print(DC.desc_of(c), f)
    if f:
        print("VIOLATION property=C01 replay=%s" % path)
        return 1
    return 0
