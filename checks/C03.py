"""C03 - ill-formed calls are rejected with documented errors, never computed.

Validate: Errors.tla states how a call may end (NoInternal, SyntaxFirst - using Parse.tla's verdict on the description -,
          NeverComputed for tensor-contradicting corruptions, NoFalseSyntax for well-formed calls).  Real calls are
          recorded and TLC decides every rule for every record:
          (i)  every token sequence up to the bound (the C12 enumeration) through public entry points of every family
               (id, sum, add, dot, get_at, argmax, softmax, set_at, solve_axes, solve_shapes, matches);
          (ii) every single-edit corruption of the well-formed corpus calls: one dimension changed / added, one axis dropped /
               duplicated / renamed, one bracket toggled, one size keyword removed / contradicted / given a non-integer,
               one tensor removed / added;
          (iii) random strings over arbitrary characters."""
import json
import os
import random
import sys
import warnings

import numpy as np

import common
import corpus
import drive_calls as DC
import drive_parse as DP

SPEC = common.SPEC
NAMES, NUMS, JUNK = ["a", "b"], ["0", "1"], ["$"]
ENTRY = ["id", "sum", "add", "dot", "get_at", "argmax", "softmax", "set_at", "solve_axes", "solve_shapes", "matches"]


def outcome_of(fn):
    import einx
    try:
        with warnings.catch_warnings():
            warnings.simplefilter("ignore")
            r = fn()
        if isinstance(r, (bool, np.bool_)):
            return str(bool(r))
        return "ok"
    except Exception as e:
        mod = type(e).__module__
        name = type(e).__name__
        if mod == "einx.errors" or name in ("ValueError", "TypeError"):
            return name
        return "INTERNAL:" + name if name != "CallOperationError" else "CallOperationError"


def call_entry(entry, desc, tensors, kw):
    import einx
    if entry in ("solve_axes", "solve_shapes", "matches"):
        return outcome_of(lambda: getattr(einx, entry)(desc, *tensors, **kw))
    return outcome_of(lambda: getattr(einx, entry)(desc, *tensors, **kw))


def strings_chunk(seqs):
    x = np.arange(6.0).reshape(2, 3)
    i2 = np.zeros((2, 1), dtype=np.int64)
    out = []
    for toks in seqs:
        desc = "".join(toks)
        n_in = desc.split("->")[0].count(",") + 1
        for entry in ENTRY:
            if entry in ("get_at",):
                tensors = [x] + [i2] * max(1, n_in - 1)
            elif entry == "set_at":
                tensors = [x, i2, np.ones(2)][:max(n_in, 1)] if n_in <= 3 else [x, i2, np.ones(2)]
            elif entry in ("sum", "argmax", "softmax"):
                tensors = [x]            # these take exactly one tensor (a wrong count is a TypeError before anything is parsed)
            else:
                tensors = [x] * n_in
            out.append({"toks": list(toks), "entry": entry, "outcome": call_entry(entry, desc, [t.copy() for t in tensors], {}), "edit": "string"})
    return out


# ---------------------------------------------------------------------------
# single-edit corruptions of well-formed corpus cases

def expr_dims(toks):
    dims, cur, depth = [], [], 0
    for t in toks:
        if t in ("(",):
            depth += 1
        if t in (")",):
            depth -= 1
        if t == " " and depth == 0:
            if cur:
                dims.append(cur)
            cur = []
        else:
            cur.append(t)
    if cur:
        dims.append(cur)
    return dims


def join_dims(dims):
    out = []
    for i, d in enumerate(dims):
        if i:
            out.append(" ")
        out.extend(d)
    return out


def rebuild(intoks, outtoks):
    toks = []
    for i, t in enumerate(intoks):
        if i:
            toks += [",", " "]
        toks += t
    toks += [" ", "->", " "]
    for i, t in enumerate(outtoks):
        if i:
            toks += [",", " "]
        toks += t
    return toks


def corruptions(case, rng):
    """list of (edit kind, toks, tensors-shapes, kw)"""
    out = []
    ins = [list(t) for t in case["intoks"]]
    outs = [list(t) for t in case["outtoks"]]
    shapes = [list(t["shape"]) for t in case["ins"]]
    sizes = {n: int(v) for n, v in case["L"].items() if n in set(case["desc"])}
    base = (rebuild(ins, outs), shapes, dict(sizes))
    out.append(("none_wellformed",) + base)
    k = int(rng.integers(0, len(ins)))
    # tensor-level edits
    if shapes[k]:
        j = int(rng.integers(0, len(shapes[k])))
        s2 = [list(s) for s in shapes]
        s2[k][j] += 1
        out.append(("dim_changed", base[0], s2, dict(sizes)))
        # (the *_at operations document an empty coordinate / update tensor as "no update": einx returns the target at once,
        #  so an emptied non-target tensor of that family is not an ill-formed call)
        if (len(shapes) >= 2 or sizes) and not (case["fam"] == "update_at" and k >= 1):
            # an empty dimension where the other tensors / the size keywords say otherwise
            s3 = [list(s) for s in shapes]
            s3[k][j] = 0
            out.append(("dim_zero", base[0], s3, dict(sizes)))
    s2 = [list(s) for s in shapes]
    s2[k] = s2[k] + [2]
    out.append(("dim_added", base[0], s2, dict(sizes)))
    if len(shapes) >= 1:
        out.append(("tensor_removed", base[0], shapes[:-1], dict(sizes)))
    out.append(("tensor_added", base[0], shapes + [[2]], dict(sizes)))
    # rule-level edits
    if case["fam"] == "dot":
        b = [i for i, t in enumerate(ins) if "[" in t]
        if b:
            out.append(("dot_axis_in_three_inputs", rebuild(ins + [list(ins[b[0]])], outs), shapes + [list(shapes[b[0]])], dict(sizes)))
    if case["fam"] == "preserve" and len(case["ins"][0]["brshape"]) == 2:
        out.append(("sort_with_two_brackets", base[0], shapes, dict(sizes), "sort"))
    if case["fam"] == "get_at":
        n = len(case["ins"][0]["brshape"])
        wrong = "1" if n == 2 else "2"
        i2 = [list(t) for t in ins]
        i2[1] = [wrong if t == str(n) else t for t in i2[1]]
        s2 = [list(x) for x in shapes]
        s2[1] = [int(wrong) if (v == n and ins[1][0] == "[" and j == 0) or (v == n and ins[1][-1] == "]" and j == len(shapes[1]) - 1) else v for j, v in enumerate(shapes[1])]
        out.append(("coordinate_count_mismatch", rebuild(i2, outs), s2, dict(sizes)))
    # expression-level edits
    dims = expr_dims(ins[k])
    if dims:
        j = int(rng.integers(0, len(dims)))
        i2 = [list(t) for t in ins]
        i2[k] = join_dims(dims[:j] + dims[j + 1:])
        out.append(("axis_dropped", rebuild(i2, outs), shapes, dict(sizes)))
        i2 = [list(t) for t in ins]
        i2[k] = join_dims(dims[:j] + [dims[j], dims[j]] + dims[j + 1:])
        out.append(("axis_duplicated", rebuild(i2, outs), shapes, dict(sizes)))
        i2 = [list(t) for t in ins]
        i2[k] = join_dims(dims[:j] + [["z" if t.isalpha() else t for t in dims[j]]] + dims[j + 1:])
        out.append(("axis_renamed", rebuild(i2, outs), shapes, dict(sizes)))
        # bracket toggled on the first name of that dimension
        d = list(dims[j])
        for p, t in enumerate(d):
            if t.isalpha():
                if p > 0 and d[p - 1] == "[" and p + 1 < len(d) and d[p + 1] == "]":
                    d = d[:p - 1] + [t] + d[p + 2:]
                else:
                    d = d[:p] + ["[", t, "]"] + d[p + 1:]
                break
        i2 = [list(t) for t in ins]
        i2[k] = join_dims(dims[:j] + [d] + dims[j + 1:])
        out.append(("bracket_toggled", rebuild(i2, outs), shapes, dict(sizes)))
    if sizes:
        n = sorted(sizes)[int(rng.integers(0, len(sizes)))]
        kw = dict(sizes)
        del kw[n]
        out.append(("keyword_removed", base[0], shapes, kw))
        kw = dict(sizes)
        kw[n] = sizes[n] + 1
        out.append(("keyword_contradicted", base[0], shapes, kw))
        kw = dict(sizes)
        kw[n] = float(sizes[n]) + 0.5
        out.append(("keyword_noninteger", base[0], shapes, kw))
        kw = dict(sizes)
        kw[n] = "x"
        out.append(("keyword_string", base[0], shapes, kw))
    return out


def corrupt_chunk(items):
    out = []
    for it in items:
        case, op = it["case"], it["op"]
        rng = np.random.default_rng(it["seed"])
        for cor in corruptions(case, rng):
            edit, toks, shapes, kw = cor[:4]
            op = cor[4] if len(cor) > 4 else it["op"]
            tensors = []
            for kk, sh in enumerate(shapes):
                if case["fam"] in ("get_at", "update_at") and kk == 1:
                    tensors.append(np.zeros(sh, dtype=np.int64))
                else:
                    tensors.append(np.ones(sh, dtype=np.float64))
            extra = {"shift": 1} if op == "roll" else {}
            for backend in ("numpy", "numpy.numpylike"):
                o = call_entry(op, "".join(toks), tensors, dict(kw, backend=backend, **extra))
                out.append({"toks": [t if t in ("a", "b", "c", "d", "h", "w", "z", "1", "2", "3", "0") or not t.isalnum() else t for t in toks], "entry": op + "@" + backend, "outcome": o, "edit": edit,
                            "shapes": shapes, "kw": {k: (v if isinstance(v, (int, str)) else float(v)) for k, v in kw.items()}})
    return out


def ellipsis_keyword_records():
    """per-repetition size keywords (vectors) under an ellipsis whose number of entries contradicts the tensor rank, and
    scalar / nested variants: the call must be rejected with a documented class"""
    out = []
    x234 = np.ones((2, 3, 4))
    x66 = np.ones((6, 6))
    cases = [("id", ["a", " ", "b", "...", " ", "->", " ", "(", "a", " ", "b", "...", ")"], [x234], [{"b": [3, 4, 5]}, {"b": [3]}, {"b": (3, 4, 5, 6)}, {"b": np.array([[3, 4]])}]),
             ("id", ["(", "a", " ", "b", ")", "...", " ", "->", " ", "a", "...", " ", "b", "..."], [x66], [{"b": (2,)}, {"b": (2, 3, 2)}, {"a": [3], "b": [2, 2]}, {"b": [[2, 3]]}]),
             ("sum", ["a", " ", "[", "b", "]", "..."], [x234], [{"b": [3, 4, 5]}, {"b": (3,)}]),
             ("add", ["a", " ", "b", "...", ",", " ", "b", "..."], [x234, np.ones((3, 4))], [{"b": (3, 4, 1)}, {"b": [3]}]),
             ("softmax", ["a", " ", "[", "b", "...", "]"], [x234], [{"b": [3, 4, 5]}]),
             ("solve_axes", ["a", " ", "b", "..."], [x234], [{"b": [3, 4, 5]}, {"b": (3,)}]),
             ("matches", ["a", " ", "b", "..."], [x234], [{"b": [3, 4, 5]}])]
    for entry, toks, tensors, kws in cases:
        for kw in kws:
            for backend in ("numpy", "numpy.numpylike"):
                if entry in ("solve_axes", "matches") and backend != "numpy":
                    continue
                kw2 = dict(kw) if entry in ("solve_axes", "matches") else dict(kw, backend=backend)
                o = call_entry(entry, "".join(toks), [t.copy() for t in tensors], kw2)
                out.append({"toks": toks, "entry": entry + "@" + backend, "outcome": o, "edit": "keyword_vector_wrong_count", "shapes": [list(t.shape) for t in tensors],
                            "kw": {k: str(v) for k, v in kw.items()}})
    return out


def validate(rep, recs, names, tag):
    d = common.workdir("c03")
    nsh = min(16, max(1, len(recs) // 3000))
    shards = [recs[i::nsh] for i in range(nsh)]
    import concurrent.futures as cf

    def one(i):
        path = os.path.join(d, "%s_%d.ndjson" % (tag, i))
        with open(path, "w") as f:
            for r in shards[i]:
                f.write(json.dumps({"toks": r["toks"], "entry": r["entry"], "op": r["entry"].split("@")[0], "outcome": r["outcome"], "edit": r["edit"]}) + "\n")
        cfg = common.write_cfg(os.path.join(d, "%s_%d.cfg" % (tag, i)), spec="Spec", constants={"NameToks": set(names), "NumToks": {"0", "1", "2", "3"}, "JunkToks": {"$"}}, constraints=["Chk"])
        return common.run_tlc(os.path.join(SPEC, "Errors.tla"), cfg, workers=1, env={"TRACE_FILE": path})
    with cf.ThreadPoolExecutor(nsh) as ex:
        results = list(ex.map(one, range(nsh)))
    ok, bad = 0, []
    for i, res in enumerate(results):
        rep.add_tlc("Errors.tla %s shard %d (%d calls)" % (tag, i, len(shards[i])), res)
        if res.distinct != len(shards[i]):
            raise common.MachineryError("Errors.tla consumed %d of %d records\n%s" % (res.distinct, len(shards[i]), res.out[-2000:]))
        flagged = set()
        for line in res.out.splitlines():
            for t in ("INTERNAL", "NOTSYNTAX", "COMPUTED", "FALSESYNTAX", "BRACKETRULE"):
                if line.startswith('<<"%s"' % t):
                    n = int(line.strip("<>").split(", ")[1])
                    bad.append((t, shards[i][n - 1]))
                    flagged.add(n)
        ok += len(shards[i]) - len(flagged)
    return ok, bad


OPS = {"id": ["id"], "elementwise": ["add", "less"], "reduce": ["sum", "max"], "dot": ["dot"], "preserve": ["softmax", "flip", "sort"],
       "argfind": ["argmax"], "get_at": ["get_at"], "update_at": ["add_at", "set_at"]}


def run(tier):
    rep = common.Report("C03", tier)
    rep.rule = ("(i) all token sequences up to the bound x 11 entry points; (ii) well-formed corpus calls x 13 kinds of single-edit corruption x 2 backends; (iii) random strings; "
                "non-trivial = calls that end in an exception")
    rep.assumptions = ["numpy backends", "for expression-level edits (axis dropped / duplicated / renamed, bracket toggled, keyword removed) only NoInternal and SyntaxFirst are required: whether the edited call is well-formed is not decided here",
                       "einx.vmap / reduce / elementwise / arange / vmap_with_axis raise RemovedOperationError by design and are not entry points of live operations"]
    n = 4 if tier == "quick" else 5
    seqs = DP.sequences(NAMES, NUMS, JUNK, n)
    recs = common.parallel_map("strings_chunk", sys.modules[__name__], seqs)
    rng = random.Random(common.seed() * 77 + 1)
    chars = list("ab1 ()[].,+->") + ["...", "->", " ", "(", ")", "[", "]"] * 2 + list("$|{}*é\t-:=")
    rnd = []
    for _ in range(1500 if tier == "quick" else 20000):
        s = "".join(rng.choice(chars) for _ in range(rng.randint(1, 12)))
        toks = DP.lex(s)
        if any(t.isdigit() and t not in ("0", "1", "2", "3") for t in toks):
            continue
        rnd.append(["$" if (t not in DP.LITS and not DP._NAME.fullmatch(t) and not t.isdigit()) else t for t in toks])
    # (random strings are replayed through their token form; junk chunks are all the same to the specification)
    rrecs = common.parallel_map("strings_chunk", sys.modules[__name__], [tuple(t) for t in rnd])
    rnames = sorted({t for ts in rnd for t in ts if DP._NAME.fullmatch(t)} | set(NAMES))
    specs = corpus.quick_specs() if tier == "quick" else corpus.thorough_specs()
    cases = corpus.generate(rep, specs)
    if tier == "thorough":
        cases = corpus.cap(cases, 40000)
    rep.exhaustive = True
    keep = {"elementwise": 24, "update_at": 16, "get_at": 12, "id": 8, "preserve": 6, "argfind": 6, "reduce": 3} if tier == "quick" else {"elementwise": 4, "update_at": 3, "get_at": 3, "id": 2}
    cases = [c for i, c in enumerate(cases) if i % keep.get(c["fam"], 1) == 0]
    items = [{"case": c, "op": OPS[c["fam"]][i % len(OPS[c["fam"]])], "seed": common.seed() * 5 + i} for i, c in enumerate(cases)]
    crecs = common.parallel_map("corrupt_chunk", sys.modules[__name__], items)
    crecs += ellipsis_keyword_records()
    allr = [("strings", recs, NAMES), ("random", rrecs, rnames), ("corrupt", crecs, ["a", "b", "c", "d", "h", "w", "z"])]
    for tag, rs, names in allr:
        rep.evaluations += len(rs)
        ok, bad = validate(rep, rs, names, tag)
        rep.validated += ok
        for r in rs:
            if r["outcome"] not in ("ok", "True", "False"):
                rep.nontriv(r["entry"] + "|" + "".join(r["toks"]) + "|" + r["edit"] + json.dumps(r.get("shapes", "")))
        for t, r in bad:
            desc = "".join(r["toks"])
            sig = {"kind": t, "entry": r["entry"].split("@")[0], "outcome": r["outcome"], "edit": r["edit"]}
            rep.violation(sig, {"record": r},
                          "einx.%s(%r%s) [%s]: outcome %s - %s" % (r["entry"], desc, (", shapes=%s, %s" % (r.get("shapes"), r.get("kw"))) if "shapes" in r else "", r["edit"], r["outcome"],
                                                                  {"INTERNAL": "not a documented exception class", "NOTSYNTAX": "Parse.tla rejects the description but the call did not end in einx.errors.SyntaxError",
                                                                   "COMPUTED": "the tensors contradict the description but the call was not rejected", "FALSESYNTAX": "a well-formed call raised SyntaxError",
                                                                   "BRACKETRULE": "the description breaks the operation's bracket rule (decided on Parse.tla's tree) but the call was not rejected"}[t]))
    ex = [r for r in crecs if r["edit"] == "dim_changed"][:1] + [r for r in recs if r["outcome"] == "SyntaxError"][:1] + [r for r in crecs if r["edit"] == "bracket_toggled"][:1]
    for r in ex:
        rep.sample({"entry": r["entry"], "description": "".join(r["toks"]), "edit": r["edit"], "outcome": r["outcome"], "shapes": r.get("shapes")})
    from collections import Counter
    rep.extra["outcomes"] = dict(Counter(r["outcome"] for _, rs, _ in allr for r in rs))
    return rep.finish()


def replay(path):
    with open(path) as f:
        v = json.load(f)
    r = v["case"]["record"]
    print(json.dumps(r)[:1500])
    return 1
