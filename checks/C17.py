"""C17 - generated code is loop-free and size-generic.

Validate: Straightline.tla states the two clauses on the abstract syntax of generated code: StraightLine (only imports,
          function definitions, assignments, expression statements, assertions, returns; no loop / conditional /
          comprehension / lambda anywhere) and SizeGeneric (for two length assignments with the same unit mask the
          syntax trees with integer literals abstracted, and the call counts, are identical).  For every corpus case the
          real einx is asked for graph=True under the case's lengths and under derived assignments with the same unit
          mask (independent prime factors per axis, an order-reversing scaling, and all non-unit lengths made equal);
          Python's ast turns the text into the record and TLC decides both clauses for every record."""
import json
import os
import sys
import warnings

import numpy as np

import astform
import common
import corpus
import drive_calls as DC

SPEC = common.SPEC
OPS = {"id": ["id"], "elementwise": ["add", "less"], "reduce": ["sum", "max"], "dot": ["dot"], "preserve": ["flip", "softmax", "sort", "roll@4", "roll@6"],       # roll with shifts that are multiples of some base lengths (2, 3) but not of the derived ones
       "argfind": ["argmax"], "get_at": ["get_at"], "update_at": ["add_at", "set_at"]}
FACT = [2, 3, 5, 7, 16]


def variants(L, names, rng):
    used = [n for n in sorted(names) if L[n] != 1]
    out = []
    v1 = dict(L)
    for n in used:
        v1[n] = L[n] * FACT[int(rng.integers(0, len(FACT)))]
    out.append(("scaled", v1))
    # reverse the order relation between the lengths: small ones get the big factor
    v2 = dict(L)
    srt = sorted(used, key=lambda n: L[n])
    for k, n in enumerate(srt):
        v2[n] = L[n] * (31 if k < len(srt) / 2 else 2) + (0 if k % 2 else 1) * 0
    out.append(("order-reversed", v2))
    v3 = dict(L)
    for n in used:
        v3[n] = 4
    out.append(("all-equal", v3))
    v4 = dict(L)
    for k, n in enumerate(used):
        v4[n] = 2 + k
    out.append(("all-distinct", v4))
    # lengths far beyond anything a test would allocate (only code is generated, nothing is executed): a lowering that
    # switches strategy above a size threshold shows here
    v5 = dict(L)
    for k, n in enumerate(used):
        v5[n] = L[n] * (4096 + 2 * k + 1)
    out.append(("huge", v5))
    return out


def shapes_for(case, L2):
    """shapes of the inputs under another length assignment: recompute from the token structure"""
    shapes = []
    for toks in case["intoks"]:
        dims, depth, cur, mode = [], 0, None, None
        stack = []
        i = 0
        # evaluate sizes by a tiny recursive descent over the tokens (names, 1, ( ), +, [ ], digits)
        def parse(ts, pos):
            vals = []
            plus = False
            acc = []
            while pos < len(ts):
                t = ts[pos]
                if t == "(":
                    v, pos = parse(ts, pos + 1)
                    acc.append(v)
                elif t == ")":
                    break
                elif t == "+":
                    plus = True
                elif t in (" ", "[", "]"):
                    pass
                elif t.isdigit():
                    acc.append(int(t))
                else:
                    acc.append(int(L2[t]))
                pos += 1
            if plus:
                return sum(acc), pos
            return int(np.prod(acc)) if acc else 1, pos
        # top level: split at spaces outside parentheses
        depth = 0
        cur = []
        for t in toks:
            if t == "(":
                depth += 1
            if t == ")":
                depth -= 1
            if t == " " and depth == 0:
                if cur:
                    dims.append(cur)
                cur = []
            else:
                cur.append(t)
        if cur:
            dims.append(cur)
        shapes.append(tuple(parse(d, 0)[0] for d in dims))
    return shapes


def graph_of(case, op, L2, backend):
    import einx
    shapes = shapes_for(case, L2)
    ins = []
    for k, sh in enumerate(shapes):
        if case["fam"] in ("get_at", "update_at") and 0 < k < (len(shapes) - (1 if case["fam"] == "update_at" else 0)):
            ins.append(np.broadcast_to(np.zeros((), dtype=np.int64), sh))       # zero strides: no memory, any size
        else:
            ins.append(np.broadcast_to(np.zeros((), dtype=np.float64), sh))
    sizes = {n: int(v) for n, v in L2.items() if n in set(case["desc"])}
    kw = {"shift": 1} if op == "roll" else {}
    if op.startswith("roll@"):
        op, kw = "roll", {"shift": int(op.split("@")[1])}
    with warnings.catch_warnings():
        warnings.simplefilter("ignore")
        return getattr(einx, op)(DC.desc_of(case), *ins, backend=backend, graph=True, **sizes, **kw)


def run_item(it):
    import einx
    case, seed, ops = it["case"], it["seed"], it["ops"]
    rng = np.random.default_rng(seed)
    recs, findings = [], []
    names = {t for t in case["desc"] if t.isalpha()}
    for op in ops:
        if op in ("sort", "argsort") and len(case["ins"][0]["brshape"]) != 1:
            continue
        for backend in DC.BACKENDS:
            try:
                base = graph_of(case, op, case["L"], backend)
            except einx.errors.OperationNotSupportedError:
                continue
            except Exception as e:
                continue   # C01's business
            a1 = astform.analyse(base)
            for label, L2 in variants(case["L"], names, rng):
                if it.get("tier") == "quick" and label == "all-distinct":
                    continue       # quick: four of the five derived assignments
                try:
                    other = graph_of(case, op, L2, backend)
                except Exception as e:
                    findings.append({"kind": "scaled-call-fails", "detail": "%s lengths %s: %s" % (label, {n: L2[n] for n in names}, type(e).__name__ + ": " + str(e)[:100]),
                                     "op": op, "backend": backend})
                    continue
                a2 = astform.analyse(other)
                recs.append({"stmts1": a1["stmts"], "stmts2": a2["stmts"], "nodes1": a1["nodes"], "nodes2": a2["nodes"], "skel1": a1["skel"], "skel2": a2["skel"],
                             "calls1": a1["calls"], "calls2": a2["calls"],
                             "meta": {"desc": DC.desc_of(case), "op": op, "backend": backend, "variant": label, "L1": {n: case["L"][n] for n in names}, "L2": {n: L2[n] for n in names},
                                      "code1": base, "code2": other}})
    return recs, findings


def run_chunk(items):
    out = []
    for it in items:
        try:
            r, f = run_item(it)
        except Exception:
            import traceback
            r, f = [], [{"kind": "machinery", "detail": traceback.format_exc()[-700:], "op": "-", "backend": "-"}]
        out.append({"recs": r, "findings": f})
    return out


def validate(rep, recs):
    d = common.workdir("c17")
    nsh = min(16, max(1, len(recs) // 300))
    shards = [recs[i::nsh] for i in range(nsh)]
    import concurrent.futures as cf

    def one(i):
        path = os.path.join(d, "recs_%d.ndjson" % i)
        with open(path, "w") as f:
            for r in shards[i]:
                f.write(json.dumps({k: r[k] for k in r if k != "meta"}) + "\n")
        cfg = common.write_cfg(os.path.join(d, "t_%d.cfg" % i), spec="Spec", constraints=["Chk"])
        return common.run_tlc(os.path.join(SPEC, "Straightline.tla"), cfg, workers=1, env={"TRACE_FILE": path})
    with cf.ThreadPoolExecutor(nsh) as ex:
        results = list(ex.map(one, range(nsh)))
    bad = []
    ok = 0
    for i, res in enumerate(results):
        rep.add_tlc("Straightline.tla shard %d (%d generated programs pairs)" % (i, len(shards[i])), res)
        if res.distinct != len(shards[i]):
            raise common.MachineryError("Straightline consumed %d of %d records\n%s" % (res.distinct, len(shards[i]), res.out[-1500:]))
        flagged = set()
        for line in res.out.splitlines():
            for tag in ("NOTSTRAIGHT", "NOTGENERIC"):
                if line.startswith('<<"%s"' % tag):
                    t = int(line.strip("<>").split(", ")[1])
                    bad.append((tag, shards[i][t - 1]))
                    flagged.add(t)
        ok += len(shards[i]) - len(flagged)
    return ok, bad


def run(tier):
    rep = common.Report("C17", tier)
    rep.rule = ("corpus cases x operations x backends x 4 derived length assignments with the same unit mask (independently scaled, order-reversed, all equal, all distinct); "
                "non-trivial = the derived assignment changes the order or the coincidence pattern of the lengths")
    rep.assumptions = ["numpy backends only (no vmap-style backend: nested function definitions do not occur)", "only graph=True is requested; nothing is executed"]
    specs = corpus.quick_specs() if tier == "quick" else corpus.thorough_specs()
    cases = corpus.generate(rep, specs)
    if tier == "thorough":
        cases = corpus.cap(cases, 30000)
    rep.exhaustive = True
    if tier == "quick":
        keep = {"elementwise": 16, "update_at": 25, "get_at": 8, "id": 8, "preserve": 4, "argfind": 4, "reduce": 2}
        cases = [c for i, c in enumerate(cases) if i % keep.get(c["fam"], 1) == 0]
    items = [{"case": c, "seed": common.seed() * 17 + i, "tier": tier, "ops": OPS[c["fam"]] if tier == "thorough" else [OPS[c["fam"]][i % len(OPS[c["fam"]])]]} for i, c in enumerate(cases)]
    results = common.parallel_map("run_chunk", sys.modules[__name__], items)
    recs = []
    for it, r in zip(items, results):
        recs.extend(r["recs"])
        for f in r["findings"]:
            if f["kind"] == "machinery":
                raise common.MachineryError(f["detail"])
            rep.violation({"kind": f["kind"], "op": f["op"], "backend": f["backend"], "fam": it["case"]["fam"]}, {"item": it},
                          "einx.%s(%r, graph=True, backend=%s): %s" % (f["op"], DC.desc_of(it["case"]), f["backend"], f["detail"]))
    rep.evaluations += 2 * len(recs)
    ok, bad = validate(rep, recs)
    rep.validated += ok
    for r in recs:
        if r["meta"]["variant"] in ("order-reversed", "all-equal"):
            rep.nontriv(json.dumps([r["meta"]["desc"], r["meta"]["op"], r["meta"]["backend"], r["meta"]["variant"]]))
    for tag, r in bad:
        m = r["meta"]
        rep.violation({"kind": tag, "op": m["op"], "backend": m["backend"], "variant": m["variant"]}, {"meta": m},
                      "einx.%s(%r, backend=%s): generated code %s for lengths %s vs %s (%s)\n--- code 1:\n%s\n--- code 2:\n%s" % (
                          m["op"], m["desc"], m["backend"], "is not straight-line" if tag == "NOTSTRAIGHT" else "differs in more than integer literals", m["L1"], m["L2"], m["variant"], m["code1"][:600], m["code2"][:600]))
    if recs:
        m = recs[len(recs) // 2]["meta"]
        rep.sample({"description": m["desc"], "op": m["op"], "backend": m["backend"], "L1": m["L1"], "L2": m["L2"], "code1": m["code1"], "stmts": recs[len(recs) // 2]["stmts1"]})
    return rep.finish()


def replay(path):
    with open(path) as f:
        v = json.load(f)
    print(json.dumps(v["case"], indent=1)[:3000])
    return 1
