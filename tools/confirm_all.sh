#!/bin/sh
# usage: confirm_all.sh <incoming root> [parallelism]  -- confirm every patch<k>.diff under <root>/<Cxx>/ (see confirm_seed.sh)
ROOT="$1"; P="${2:-5}"
ls "$ROOT"/*/patch*.diff | while read f; do
  d=$(dirname "$f"); k=$(basename "$f" | sed 's/patch\([0-9]*\)\.diff/\1/')
  [ -f "$d/confirm$k.json" ] && continue
  echo "$d $k"
done | xargs -P "$P" -L 1 sh -c '/verif/tools/confirm_seed.sh "$0" "$1" "$0/confirm$1.json" >/dev/null 2>&1'
for f in "$ROOT"/*/confirm*.json; do echo "$f: $(cat $f)"; done
