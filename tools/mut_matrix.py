#!/venv/bin/python
"""mut_matrix.py <result.json> <seed dir>:<check>[,<check>...] ...
Runs checks against seeded changes WITHOUT touching /repo: each patch is applied in a scratch worktree of /repo HEAD under
/tmp and the check runs with EINX_REPO pointing there and VERIF_OUT redirected (evidence/replays of /repo are not overwritten).
The worktree is removed afterwards.  Result: {seed: {check: {"rc":..,"violations":[signature lines],"wall":..}}}"""
import json, os, subprocess, sys, tempfile, time
out = sys.argv[1]
res = json.load(open(out)) if os.path.exists(out) else {}
for spec in sys.argv[2:]:
    sd, checks = spec.split(":")
    patch = os.path.join(sd, "patch.diff") if os.path.exists(os.path.join(sd, "patch.diff")) else sd
    name = os.path.basename(os.path.dirname(patch)) + "/" + os.path.basename(patch) if patch == sd else os.path.basename(sd)
    if "_incoming3" in patch:
        name = "r3:" + name
    wt = tempfile.mkdtemp(prefix="mutwt.", dir="/tmp")
    subprocess.run(["git", "-C", "/repo", "worktree", "add", "--detach", "-q", wt, "HEAD"], check=False)
    ok = subprocess.run(["git", "-C", wt, "apply", patch]).returncode == 0
    vout = tempfile.mkdtemp(prefix="mutout.", dir="/tmp")
    for c in checks.split(","):
        if not ok:
            res.setdefault(name, {})[c] = {"rc": "patch-does-not-apply"}
            continue
        t0 = time.time()
        env = dict(os.environ, EINX_REPO=wt, VERIF_OUT=vout)
        p = subprocess.run([os.path.join(os.path.dirname(os.path.dirname(os.path.abspath(__file__))), "check"), c, "--tier", os.environ.get("MUT_TIER", "quick")], env=env, stdout=subprocess.PIPE, stderr=subprocess.STDOUT, text=True)
        lines = [l for l in p.stdout.splitlines() if not l.startswith("WARNING")]
        viol = []
        for i, l in enumerate(lines):
            if l.startswith("VIOLATION"):
                viol.append((lines[i + 1].strip()[:200] if i + 1 < len(lines) else "") + " | " + (lines[i + 2].strip()[:200] if i + 2 < len(lines) else ""))
        res.setdefault(name, {})[c] = {"rc": p.returncode, "n_violation_lines": len(viol), "violations": viol[:4], "wall": round(time.time() - t0),
                                      "tail": lines[-1][:300] if lines else "", "machinery": [l[:300] for l in lines if "MACHINERY" in l][:2]}
        json.dump(res, open(out, "w"), indent=1)
        print(name, c, p.returncode, len(viol), round(time.time() - t0), flush=True)
    subprocess.run(["git", "-C", "/repo", "worktree", "remove", "--force", wt])
    subprocess.run(["rm", "-rf", vout])
json.dump(res, open(out, "w"), indent=1)
