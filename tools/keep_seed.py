#!/venv/bin/python
"""keep_seed.py <Cxx> <k> <caught_by: comma list or 'none'> <note>  -- move a confirmed seeded change from _incoming to seeded/<id>-<k>/"""
import json, os, shutil, sys
pid, k, caught, note = sys.argv[1], sys.argv[2], sys.argv[3], sys.argv[4]
src = "/verif/seeded/_incoming/%s" % pid
dst = "/verif/seeded/%s-%s" % (pid, k)
os.makedirs(dst, exist_ok=True)
shutil.copy(os.path.join(src, "patch%s.diff" % k), os.path.join(dst, "patch.diff"))
shutil.copy(os.path.join(src, "demo%s.py" % k), os.path.join(dst, "demo.py"))
meta = json.load(open(os.path.join(src, "meta%s.json" % k)))
conf = json.load(open(os.path.join(src, "confirm%s.json" % k)))
meta = {"property": pid, "breaks": meta.get("what"), "needs_to_manifest": meta.get("needs"), "files_changed": meta.get("files_changed"),
        "origin": "independent sub-agent given only the property text and a scratch worktree",
        "confirmed": {"how": "tools/confirm_seed.sh in a scratch worktree of /repo HEAD (outside /repo and /verif): git apply; demo on clean tree; demo with patch; full pytest suite with patch",
                      **conf},
        "caught_by": [] if caught == "none" else caught.split(","), "detection_note": note,
        "ran": "tools/tools_mut.sh seeded/%s-%s/patch.diff <check> quick  (git -C /repo apply; ./check; git -C /repo checkout -- .)" % (pid, k)}
json.dump(meta, open(os.path.join(dst, "meta.json"), "w"), indent=1)
print(dst)
