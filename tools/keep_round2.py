#!/venv/bin/python
"""keep_round2.py <matrix.json> ...  -- files the confirmed round-2 seeded changes (the staging directory <Cxx>/patch<k>.diff) as
seeded/<Cxx>-<k+2>/{patch.diff, demo.py, meta.json}.  caught_by is taken from the mutation-matrix results (tools/mut_matrix.py;
later files override earlier ones for the same (seed, check) pair)."""
import json, os, shutil, sys
ROOT = "/verif/seeded"
INC, OFFSET, ROUND = "_incoming2", 2, 2
if sys.argv[1:2] == ["--round3"]:
    INC, OFFSET, ROUND = "_incoming3", 5, 3
    del sys.argv[1]
res = {}
for f in sys.argv[1:]:
    if not os.path.exists(f):
        continue
    for seed, checks in json.load(open(f)).items():
        for c, r in checks.items():
            res.setdefault(seed, {})[c] = dict(r, source=os.path.basename(f))
DUP3 = {"C08/1": "C01-1", "C13/1": "C13-3", "C13/2": "C13-4", "C15/1": "C15-3", "C17/1": "C17-2", "C14/1": "C14-4", "C07/1": "C07-2", "C03/2": "C02-4"}
DUP = {"C01/1": "C01-1", "C01/3": "C08-1", "C06/1": "C06-2", "C08/2": "C01-2", "C11/3": "C06-2", "C12/1": "C12-1", "C15/3": "C15-2", "C17/1": "C17-1", "C17/2": "C17-2", "C10/2": "C10-1"}
NOTES = json.load(open(os.path.join(ROOT, "round2_notes.json"))) if os.path.exists(os.path.join(ROOT, "round2_notes.json")) else {}
out = []
if ROUND == 3:
    DUP = DUP3
for pid in sorted(os.listdir(os.path.join(ROOT, INC))):
    d = os.path.join(ROOT, INC, pid)
    for k in (1, 2, 3):
        if not os.path.exists(os.path.join(d, "patch%d.diff" % k)):
            continue
        dst = os.path.join(ROOT, "%s-%d" % (pid, k + OFFSET))
        os.makedirs(dst, exist_ok=True)
        shutil.copy(os.path.join(d, "patch%d.diff" % k), os.path.join(dst, "patch.diff"))
        shutil.copy(os.path.join(d, "demo%d.py" % k), os.path.join(dst, "demo.py"))
        meta = json.load(open(os.path.join(d, "meta%d.json" % k)))
        conf = json.load(open(os.path.join(d, "confirm%d.json" % k)))
        r = res.get("%s%s/patch%d.diff" % ("r3:" if ROUND == 3 else "", pid, k), {})
        caught = sorted(c for c, x in r.items() if x.get("rc") == 1)
        missed = sorted(c for c, x in r.items() if x.get("rc") == 0)
        m = {"property": pid, "round": ROUND, "breaks": meta.get("what"), "needs_to_manifest": meta.get("needs"), "files_changed": meta.get("files_changed"),
             "origin": "independent sub-agent given only the property text and a scratch worktree (round %d: %s changes per property at different sites)" % (ROUND, "three" if ROUND == 2 else "two"),
             "confirmed": dict({"how": "tools/confirm_seed.sh in a scratch worktree of /repo HEAD (outside /repo and /verif): git apply; demo on clean tree (exit 0); demo with patch (exit != 0); full pytest suite with patch"}, **conf),
             "caught_by": caught, "not_caught_by": missed,
             "check_runs": {c: {"exit": x.get("rc"), "violation_lines": x.get("n_violation_lines"), "first": (x.get("violations") or [""])[0][:300], "wall_s": x.get("wall"), "matrix": x.get("source")} for c, x in sorted(r.items())},
             "ran": "tools/mut_matrix.py: patch applied in a scratch worktree of /repo HEAD under /tmp, ./check <id> --tier quick with EINX_REPO pointing at it and VERIF_OUT redirected; worktree removed afterwards (/repo itself untouched)"}
        key = "%s/%d" % (pid, k)
        if key in DUP:
            m["same_mechanism_as"] = DUP[key]
        if key in NOTES:
            m["detection_note"] = NOTES[key]
        json.dump(m, open(os.path.join(dst, "meta.json"), "w"), indent=1)
        out.append(("%s-%d" % (pid, k + OFFSET), caught, missed, DUP.get(key, "")))
for o in out:
    print("%-7s caught_by=%-14s missed_by=%-12s %s" % (o[0], ",".join(o[1]) or "-", ",".join(o[2]) or "-", ("same mechanism as " + o[3]) if o[3] else ""))
