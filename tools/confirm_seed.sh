#!/bin/sh
# usage: confirm_seed.sh <incoming dir> <k> <result json>
# Confirms a seeded change in a scratch worktree of /repo HEAD (outside /repo and /verif):
#   patch applies, test suite passes with it, demo passes without and fails with it.
IN="$1"; K="$2"; OUT="$3"
WT=$(mktemp -d /tmp/seedchk.XXXXXX)
git -C /repo worktree add --detach -q "$WT" HEAD 2>/dev/null || { rmdir "$WT"; git -C /repo worktree add --detach -q "$WT" HEAD; }
cd "$WT"
run() { PYTHONPATH="$WT" timeout 600 /venv/bin/python "$@"; }
run "$IN/demo$K.py" >/dev/null 2>&1; DEMO_CLEAN=$?
if git apply "$IN/patch$K.diff" 2>/dev/null; then APPLIES=true; else APPLIES=false; fi
if $APPLIES; then
  run "$IN/demo$K.py" >/dev/null 2>&1; DEMO_PATCHED=$?
  TESTS=$(run -m pytest -q -p no:cacheprovider 2>&1 | tail -1)
else DEMO_PATCHED=-1; TESTS="n/a"; fi
cd /
git -C /repo worktree remove --force "$WT"
printf '{"applies": %s, "demo_exit_clean": %s, "demo_exit_patched": %s, "tests": "%s", "head": "%s"}\n' "$APPLIES" "$DEMO_CLEAN" "$DEMO_PATCHED" "$TESTS" "$(git -C /repo rev-parse --short HEAD)" > "$OUT"
cat "$OUT"
