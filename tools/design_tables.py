#!/venv/bin/python
"""Prints (a) the per-property coverage table from evidence/*.json and (b) the seeded-change table from seeded/*/meta.json,
in the markdown form used by DESIGN.md sections 5 and 8."""
import glob, json, os
print("| id | TLC states | replayed spec→code | validated code→spec | evaluations | quick wall |")
print("|---|---|---|---|---|---|")
for f in sorted(glob.glob("/verif/evidence/C*.json")):
    e = json.load(open(f)); c = e["coverage"]
    print("| %s | %d | %d | %d | %d | %.0f s |" % (e["property_id"], c["states"], c.get("replayed_spec_to_code", 0), c.get("validated_code_to_spec", 0), c.get("evaluations", 0), e["wall_s"]))
print()
print("| seeded | round | what it breaks (first sentence) | caught by | not caught by |")
print("|---|---|---|---|---|")
def key(d):
    b = os.path.basename(d); p, k = b.split("-"); return (p, int(k))
for d in sorted([d for d in glob.glob("/verif/seeded/C*-*") if os.path.isdir(d)], key=key):
    m = json.load(open(os.path.join(d, "meta.json")))
    what = (m.get("breaks") or "").strip().replace("\n", " ").replace("|", "/")
    what = what.split(". ")[0][:170]
    extra = (" (same mechanism as %s)" % m["same_mechanism_as"]) if m.get("same_mechanism_as") else ""
    print("| %s | %s | %s%s | %s | %s |" % (os.path.basename(d), m.get("round", 1), what, extra, ", ".join(m.get("caught_by") or []) or "—", ", ".join(m.get("not_caught_by") or []) or ""))
