#!/venv/bin/python
"""Injects the rounds-2/3 seeded-change table and summary (from seeded/*/meta.json) and the per-property coverage table
(from evidence/*.json) into DESIGN.md between marker comments."""
import glob, json, os, re
D = "/verif/DESIGN.md"
s = open(D).read()
def key(d):
    b = os.path.basename(d); p, k = b.split("-"); return (p, int(k))
rows, tot, caught, dup = [], 0, 0, 0
missed = []
for d in sorted([d for d in glob.glob("/verif/seeded/C*-*") if os.path.isdir(d)], key=key):
    m = json.load(open(os.path.join(d, "meta.json")))
    if m.get("round", 1) == 1:
        continue
    tot += 1
    what = (m.get("breaks") or "").strip().replace("\n", " ").replace("|", "/")
    what = re.split(r"(?<=[a-z)\]`'\"])\. ", what)[0][:200]
    c = m.get("caught_by") or []
    if m.get("same_mechanism_as"):
        dup += 1
    if c:
        caught += 1
    else:
        missed.append(os.path.basename(d))
    rows.append("| %s | %s | %s%s | %s |" % (os.path.basename(d), m.get("round"), what, (" *(same mechanism as %s)*" % m["same_mechanism_as"]) if m.get("same_mechanism_as") else "", ", ".join(c) or "**not caught**"))
table = "| seeded | round | what it breaks | caught by (quick tier) |\n|---|---|---|---|\n" + "\n".join(rows)
summary = "%d of the %d changes of rounds 2 and 3 are caught by at least one check (%d of them repeat an earlier mechanism)%s." % (
    caught, tot, dup, ("; not caught: " + ", ".join(missed)) if missed else "")
def put(tag, text):
    global s
    a, b = "<!-- %s -->" % tag, "<!-- /%s -->" % tag
    if b in s:
        s = s[:s.index(a)] + a + "\n" + text + "\n" + b + s[s.index(b) + len(b):]
    else:
        s = s.replace(a, a + "\n" + text + "\n" + b)
put("ROUND23-SUMMARY", summary)
put("ROUND23-TABLE", table)
ev = []
for f in sorted(glob.glob("/verif/evidence/C*.json")):
    e = json.load(open(f)); c = e["coverage"]
    ev.append("| %s | %d | %d | %d | %d | %d | %.0f s |" % (e["property_id"], c["states"], c.get("replayed_spec_to_code", 0), c.get("validated_code_to_spec", 0), c.get("evaluations", 0), c.get("distinct_nontrivial", 0), e["wall_s"]))
put("EVIDENCE-TABLE", "| id | TLC distinct states | replayed spec→code | validated code→spec | evaluations | distinct non-trivial | wall (quick, this sandbox) |\n|---|---|---|---|---|---|---|\n" + "\n".join(ev))
open(D, "w").write(s)
print(summary)
