#!/venv/bin/python
"""Regenerate MANIFEST.json from the table below (claimed checks) + properties.jsonl."""
import json
CHECKS = {
 "C10": dict(level="model_checking", tech="TLA+ spec RegistryConc.tla generated from access sequences measured on the code; TLC over all interleavings; TLC schedules forced on real threads; line-level pre-empted real executions validated by TLC (Trace_RegistryConc.tla)",
   text="TLC decides linearizability of the registry (results and final global backend state equal some serial order) over every interleaving of the shared accesses that each method performs, where the access sequences are measured from the code under test; complete TLC schedules are then forced on real threads and must reproduce the predicted results and state, and real einx calls run under deterministic line-level pre-emption are recorded and validated as behaviours of the same specification. Model checking is the right level because the property quantifies over schedules; conformance in both directions ties the model to the code.",
   note="pre-emption points of registry methods = accesses to registry.state / use_lock (private copies are invisible to other threads); CPython GIL; numpy only, synthetic backends for other frameworks; sympy/numpy internals trusted thread-safe", ref="5 C10"),
 "C11": dict(level="model_checking", tech="TLA+ spec Registry.tla; TLC invariant DoGet = DocSelect in every reachable state; TLC-generated behaviours replayed into a real BackendRegistry; recorded random executions validated by TLC (Trace_Registry.tla)",
   text="Registry.tla mirrors BackendRegistryState method by method; DocSelect is the documented rule written without memo/seen/registration order. TLC checks in every reachable state of every configuration (framework, priority, eager/on-import, healthy/failing; all registration orders) that every possible lookup equals DocSelect. Behaviours sampled by TLC are executed on a fresh real registry comparing result and full projected state after each step, and random real executions are accepted by TLC only if they are behaviours of the specification satisfying the invariant in every state.",
   note="closed world (registrations precede lookups), distinct names, frameworks other than numpy are synthetic Backend objects with fake modules in sys.modules; bounded: <=3 backends exhaustively (4 by simulation), memo entries explored independently", ref="5 C11"),
 "C12": dict(level="model_checking", tech="TLA+ spec Parse.tla (token-level transcription of parse_op and tree normal forms); TLC checks totality, space-invariance and print/re-read round trip on every token sequence up to the bound; outcomes recorded from the real parser validated by TLC (Trace_Parse.tla)",
   text="Parse.tla is a total function from token sequences to tree-or-syntax-error, structured like parse_op (dedup spaces, nesting, operator precedence, ellipsis, move-up of '->' and ',', bracket normalisation, consistency checks). TLC enumerates every token sequence up to the length bound and proves on the specification that redundant spaces never change the verdict or tree and that every accepted tree prints back into the notation and re-reads to itself. The real parser is bound to the specification by recording its outcome on every one of those strings (plus random strings over arbitrary characters) and letting TLC compare verdict and tree; other exception classes, messages that do not quote the caller's string, carets outside it and failing real round trips are violations by themselves.",
   note="exhaustive up to 5 (quick) / 6 (thorough) tokens over 2 names, numbers 0/1, one junk token; longer strings by seeded random sampling; the harness lexer that maps random strings to tokens follows parse.py's literal order", ref="5 C12"),
 "C01": dict(level="model_checking", tech="TLA+ denotation Loop.tla + case space Cases.tla enumerated by TLC (WellDefinedInv on every case); every exported case replayed through the real einx on all numpy backends and compared element-wise with the denotation executed by loopref",
   text="Loop.tla defines what a description denotes (per loop iteration, the flat positions of every input/output sub-tensor: row-major flattening, block offsets for '+', shared index for repeated names, broadcast for output-only axes) without any reshape/transpose/einsum. TLC enumerates the case space of every operation family under several length assignments (unit axes, equal lengths, distinct lengths), checks that the denotation is a well-defined function onto the output, and exports each case with its table; the real einx must return exactly the values the table prescribes (or OperationNotSupportedError) for every operation of the family on every backend.",
   note="numpy backends only; numpy elementary functions trusted; expressions enumerated as trees (<=3 dims / <=4 leaves per tensor, <=3 names) and printed into the notation; ellipsis handled by C07", ref="5 C01"),
 "C08": dict(level="model_checking", tech="TLA+ Equiv.tla: transformations (rename, permute input/output dimensions, group) with TLC-checked equations on the denotation for every case; exported related pairs replayed as pairs of REAL calls on related tensors; inverse and composition laws for rearrangements",
   text="TLC proves on every enumerated case that the denotation is equivariant under the transformations the property names (C08_Equivariance), and exports each (case, transformed case, data transformation); the real einx is run on both members with transposed/reshaped tensors and the two real results must be related as prescribed; for einx.id the inverse law (also across concatenate/split) and the composition law are replayed as chains of real calls.",
   note="numpy backends; dimensions containing brackets keep their relative order under permutation; quick tier samples the larger families", ref="5 C08"),
 "C14": dict(level="model_checking", tech="TLA+ Cases.tla family update_at with invariant C14_ContribPartition checked by TLC on every case; replay of set_at/add_at/subtract_at on all backends under several coordinate assignments (maximal duplication, random) with exact integer accumulation, membership for set_at and get_at read-back",
   text="The denotation lists per iteration the target slice, the coordinate vector and the update element; TLC checks that iterations partition the update tensor evenly and address slices of the output. The real operations must produce exactly the accumulated contributions (add/subtract), one of the competing values (set) and leave all other cells untouched, for coordinate layouts with the coordinate axis first/last, scattered/flattened bracketed target axes and missing/extra vectorised axes.",
   note="numpy backends; one coordinate tensor per call in the enumerated corpus; coordinates all-zero / all-max / seeded random rather than all assignments", ref="5 C14"),
}
NA_REASON = "check not built yet (work in progress, see DESIGN.md section 9)"
ids = [json.loads(l)["id"] for l in open("/verif/properties.jsonl")]
checks = []
for i in ids:
    if i in CHECKS:
        c = CHECKS[i]
        checks.append({"property_id": i, "quick_cmd": "./check %s --tier quick" % i, "thorough_cmd": "./check %s --tier thorough" % i,
                       "evidence_file": "/verif/evidence/%s.json" % i, "replay_cmd_template": "./check %s --replay {path}" % i,
                       "engine": "tlc", "level_claimed": {"category": c["level"], "text": c["text"], "design_ref": "DESIGN.md section " + c["ref"]},
                       "level_note": c["note"], "technique": c["tech"]})
m = {"version": 1,
     "setup_cmd": "true",
     "hooks": {"guard": "EINX_VERIF", "enable": "EINX_VERIF=1 is exported by ./check; all recorders are installed from /verif/harness on module attributes of the imported package (no source hooks in /repo, no build step: checks import einx from /repo's working tree)",
               "baseline_off_cmd": "cd /repo && /venv/bin/python -m pytest -ra -q -p no:cacheprovider --timeout=900 --continue-on-collection-errors",
               "source_commits": [], "add_only": True},
     "engines": [{"name": "tlc", "path": "/opt/veriftools/tla/tla2tools.jar", "serves_properties": sorted(CHECKS), "kind_free_text": "TLA+ model checker TLC 1.8 (exhaustive, -simulate, trace validation) driven by /verif/harness/common.py"}],
     "checks": checks,
     "notes": "Entry point ./check <id> --tier quick|thorough [--replay file]; specs in spec/, harness in harness/, per-property drivers in checks/. Known findings in known_findings.json.",
     "not_applicable": [{"property_id": i, "reason": NA_REASON} for i in ids if i not in CHECKS]}
json.dump(m, open("/verif/MANIFEST.json", "w"), indent=1)
print("claimed:", sorted(CHECKS))
