#!/bin/sh
# usage: tools_mut.sh <patch> <check id> [tier]  -- apply patch to /repo, run check, always undo
P="$1"; ID="$2"; TIER="${3:-quick}"
git -C /repo apply "$P" || { echo "PATCH DOES NOT APPLY"; exit 3; }
/verif/check "$ID" --tier "$TIER" 2>&1 | grep -v WARNING | grep -E "^VIOLATION|^KNOWN|^C[0-9][0-9] |MACHINERY" | cut -c1-300 | head -12
git -C /repo checkout -- .
git -C /repo status --short | head -3
