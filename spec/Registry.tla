------------------------------- MODULE Registry -------------------------------
(***************************************************************************)
(* The einx backend registry (einx/_src/frontend/backend.py).               *)
(*                                                                         *)
(* The module has three layers:                                            *)
(*  1. pure operators on an immutable registry snapshot `s` that mirror     *)
(*     BackendRegistryState._xxx one to one (the code copies the state,     *)
(*     mutates the copy and publishes it, so every method IS a pure         *)
(*     function snapshot -> (snapshot, result));                            *)
(*  2. DocSelect: the DOCUMENTED selection rule (property C11), written     *)
(*     without looking at memo / seen / registration order;                 *)
(*  3. a sequential state machine over `reg` that is explored by TLC and    *)
(*     replayed against a real BackendRegistry.  RegistryConc.tla refines   *)
(*     every method into Read / Write steps for C10.                        *)
(***************************************************************************)
EXTENDS Naturals, Integers, Sequences, FiniteSets, TLC

CONSTANTS
  BackendIds,   \* set of strings; the id of a backend is its (distinct) name; "numpy" is special
  Mods,         \* module names (frameworks): "numpy" plus synthetic ones
  OpenWorld,    \* TRUE: registration stays possible after lookups (outside C11's environment)
  MaxStack,     \* bound on with-block nesting explored
  CfgSpace,     \* "full" | "quick" : which backend configurations Init ranges over
  PublicRegistryMethods  \* also explore BackendRegistry.get_by_name / get_by_tensors (unused by einx itself)

Nil == "nil"
Prios == {-5, -1, 0}

(* tensor argument types: numpy array, python scalar, tensor of framework m *)
TypeOf(m) == IF m = "numpy" THEN "nd" ELSE "t_" \o m
TensorTypes == {"nd", "sc"} \cup {TypeOf(m) : m \in Mods \ {"numpy"}}
TypeTuples == {<<>>} \cup {<<a>> : a \in TensorTypes} \cup {<<a, b>> : a \in TensorTypes, b \in TensorTypes}

Range(f) == {f[i] : i \in DOMAIN f}

(* a backend description: which framework's tensors it accepts, its priority, *)
(* whether it is registered eagerly or on import, whether its factory works  *)
CfgRec == [fw : Mods, prio : Prios, lazy : BOOLEAN, healthy : BOOLEAN]

VARIABLES
  cfg,        \* [BackendIds -> CfgRec]   (chosen in Init, constant afterwards)
  declared,   \* sequence of backend ids in the order register()/register_on_import() was called
  imported,   \* sequence of module names: sys.modules in insertion order
  reg,        \* the published registry snapshot (BackendRegistry.state)
  phase       \* "setup" (registrations) | "use" (lookups, imports, with-blocks)

vars == <<cfg, declared, imported, reg, phase>>

EmptyReg == [backends |-> <<>>,                       \* instantiated backends, in order
             lazy     |-> [m \in Mods |-> <<>>],      \* module -> pending factories (backend ids)
             seen     |-> {},                         \* seen_module_names (projected on Mods)
             memo     |-> <<>>,                       \* set of <<types, backend>> pairs as a function, see MemoGet
             memoK    |-> {},                         \* domain of memo
             stack    |-> <<>>]

(* memo is a partial function TypeTuples -> BackendIds; TLC-friendly representation *)
MemoHas(s, tt) == tt \in s.memoK
MemoGet(s, tt) == (CHOOSE p \in Range(s.memo) : p[1] = tt)[2]
MemoPut(s, tt, b) == [s EXCEPT !.memo = Append(@, <<tt, b>>), !.memoK = @ \cup {tt}]

---------------------------------------------------------------------------
(* Instantiated backend objects.  A failing factory yields InvalidBackend:  *)
(* priority 0, supports nothing.                                            *)
Healthy(c, b)  == c[b].healthy
PrioOf(c, b)   == IF c[b].healthy THEN c[b].prio ELSE 0
IsScalarT(t)   == t = "sc"
Supports(c, b, t) == c[b].healthy /\ t = TypeOf(c[b].fw)     \* is_supported_tensor

Registered(s) == Range(s.backends)          \* name_to_backend keys (names are distinct)

---------------------------------------------------------------------------
(* BackendRegistryState._register / _run_factory / _register_on_import      *)
DoRegister(s, b) == [s EXCEPT !.backends = Append(@, b)]

DoRegisterOnImport(s, c, imp, b) ==
  IF c[b].fw \in Range(imp) THEN DoRegister(s, b)
  ELSE [s EXCEPT !.lazy[c[b].fw] = Append(@, b)]

(* _check_new_imports: returns [s, changed]; `checked` is has_checked[0]    *)
NewMods(s, imp) == SelectSeq(imp, LAMBDA m : m \notin s.seen)

RECURSIVE FlushLazy(_, _)
FlushLazy(s, ms) ==
  IF ms = <<>> THEN s
  ELSE LET m == Head(ms)
           s1 == [s EXCEPT !.seen = @ \cup {m},
                           !.backends = @ \o s.lazy[m],
                           !.lazy[m] = <<>>]
       IN FlushLazy(s1, Tail(ms))

(* A fresh registry has seen nothing, and sys.modules always contains modules  *)
(* it has not seen (hundreds of unrelated ones), which we summarise by the     *)
(* flag `virgin`: the first check ever performed on a snapshot reports          *)
(* changed = TRUE even if no module of Mods is new.                             *)
CheckImports(s, imp, checked) ==
  IF checked THEN [s |-> s, changed |-> FALSE, checked |-> TRUE]
  ELSE LET new == NewMods(s, imp)
       IN IF new = <<>> /\ s.seen # {} THEN [s |-> s, changed |-> FALSE, checked |-> TRUE]
          ELSE [s |-> FlushLazy(s, new), changed |-> TRUE, checked |-> TRUE]

(* _get_by_name: [s, res, checked]; res = [ok |-> b] or [err |-> cls]      *)
Ok(b)   == [k |-> "ok", v |-> b]
Err(c)  == [k |-> "err", v |-> c]

GetByName(s, imp, n, checked) ==
  IF n \in Registered(s) THEN [s |-> s, res |-> Ok(n), checked |-> checked]
  ELSE LET r == CheckImports(s, imp, checked)
       IN IF ~r.changed \/ n \notin Registered(r.s)
          THEN [s |-> r.s, res |-> Err("ValueError"), checked |-> TRUE]
          ELSE [s |-> r.s, res |-> Ok(n), checked |-> TRUE]

(* _get_by_tensor for one tensor type                                       *)
SupSet(s, c, t) == {b \in Registered(s) : Supports(c, b, t)}

GetByTensor(s, c, imp, t, checked) ==
  IF SupSet(s, c, t) # {} THEN [s |-> s, set |-> SupSet(s, c, t), checked |-> checked]
  ELSE LET r == CheckImports(s, imp, checked)
       IN IF r.changed THEN [s |-> r.s, set |-> SupSet(r.s, c, t), checked |-> TRUE]
          ELSE [s |-> r.s, set |-> {}, checked |-> TRUE]

RECURSIVE FoldTensors(_, _, _, _, _, _)
FoldTensors(s, c, imp, tt, checked, acc) ==
  IF tt = <<>> THEN [s |-> s, set |-> acc, checked |-> checked]
  ELSE LET r == GetByTensor(s, c, imp, Head(tt), checked)
       IN FoldTensors(r.s, c, imp, Tail(tt), r.checked, acc \cup r.set)

MaxPrio(c, S) == CHOOSE p \in {PrioOf(c, b) : b \in S} : \A b \in S : PrioOf(c, b) <= p

(* _get_by_tensors: [s, cands] or error (from the inner _get_by_name("numpy")) *)
GetByTensors(s, c, imp, tt, checked) ==
  IF MemoHas(s, tt) THEN [s |-> s, err |-> Nil, cands |-> {MemoGet(s, tt)}]
  ELSE
    LET r0 == CheckImports(s, imp, checked)     \* backends of newly imported modules are initialised first
        r1 == FoldTensors(r0.s, c, imp, tt, r0.checked, {})
        allsc == \A i \in DOMAIN tt : IsScalarT(tt[i])
        r2 == IF allsc THEN GetByName(r1.s, imp, "numpy", FALSE)     \* fresh has_checked list
              ELSE [s |-> r1.s, res |-> Ok(Nil), checked |-> FALSE]
    IN IF allsc /\ r2.res.k = "err" THEN [s |-> r2.s, err |-> r2.res.v, cands |-> {}]
       ELSE
        LET c0 == IF allsc THEN {r2.res.v} ELSE r1.set
            c1 == IF Cardinality(c0) > 1 THEN {b \in c0 : PrioOf(c, b) = MaxPrio(c, c0)} ELSE c0
            s3 == IF Cardinality(c1) = 1 THEN MemoPut(r2.s, tt, CHOOSE b \in c1 : TRUE) ELSE r2.s
        IN [s |-> s3, err |-> Nil, cands |-> c1]

(* _get(backend, tensors).  arg = [k |-> "none"] | [k |-> "name", v] | [k |-> "obj", v] | [k |-> "bad"] *)
ArgNone == [k |-> "none", v |-> Nil]
GetCore(s, c, imp, arg, tt) ==
  IF arg.k = "obj" THEN [s |-> s, res |-> Ok(arg.v)]
  ELSE IF arg.k = "name" THEN
       LET r == GetByName(s, imp, arg.v, FALSE) IN [s |-> r.s, res |-> r.res]
  ELSE IF s.stack # <<>> THEN [s |-> s, res |-> Ok(s.stack[Len(s.stack)])]
  ELSE IF arg.k = "bad" THEN [s |-> s, res |-> Err("ValueError")]
  ELSE LET r == GetByTensors(s, c, imp, tt, FALSE)
       IN IF r.err # Nil THEN [s |-> r.s, res |-> Err(r.err)]
          ELSE IF Cardinality(r.cands) = 1 THEN [s |-> r.s, res |-> Ok(CHOOSE b \in r.cands : TRUE)]
          ELSE [s |-> r.s, res |-> Err("BackendResolutionError")]

(* BackendRegistryState.get = copy, _get, return copy: an exception discards the copy *)
DoGet(s, c, imp, arg, tt) ==
  LET r == GetCore(s, c, imp, arg, tt)
  IN IF r.res.k = "err" THEN [s |-> s, res |-> r.res] ELSE r

(* what the API layer (frontend/api.py) does with the backend it got          *)
ApiRes(c, res) == IF res.k = "ok" /\ ~Healthy(c, res.v) THEN Err("ImportBackendError") ELSE res

DoGetByName(s, imp, n) ==
  LET r == GetByName(s, imp, n, FALSE)
  IN IF r.res.k = "err" THEN [s |-> s, res |-> r.res] ELSE [s |-> r.s, res |-> r.res]

(* public get_by_tensors returns the candidate list (a set here)             *)
DoGetByTensors(s, c, imp, tt) ==
  LET r == GetByTensors(s, c, imp, tt, FALSE)
  IN IF r.err # Nil THEN [s |-> s, res |-> Err(r.err)] ELSE [s |-> r.s, res |-> [k |-> "set", v |-> r.cands]]

DoEnter(s, b) == [s EXCEPT !.stack = Append(@, b)]
CanExit(s, b) == s.stack # <<>> /\ s.stack[Len(s.stack)] = b
DoExit(s, b)  == [s EXCEPT !.stack = SubSeq(@, 1, Len(@) - 1)]

---------------------------------------------------------------------------
(*                     The documented rule (C11)                           *)
(* Available = declared, and (eager or its module has been imported).      *)
Avail(c, decl, imp) == {b \in Range(decl) : ~c[b].lazy \/ c[b].fw \in Range(imp)}

DocSelect(c, decl, imp, stack, arg, tt) ==
  LET A == Avail(c, decl, imp) IN
  IF arg.k = "obj" THEN ApiRes(c, Ok(arg.v))
  ELSE IF arg.k = "name" THEN (IF arg.v \in A THEN ApiRes(c, Ok(arg.v)) ELSE Err("ValueError"))
  ELSE IF stack # <<>> THEN ApiRes(c, Ok(stack[Len(stack)]))
  ELSE IF arg.k = "bad" THEN Err("ValueError")
  ELSE IF \A i \in DOMAIN tt : IsScalarT(tt[i])
       THEN (IF "numpy" \in A THEN ApiRes(c, Ok("numpy")) ELSE Err("ValueError"))
  ELSE LET cands == {b \in A : \E i \in DOMAIN tt : Supports(c, b, tt[i])}
           best  == {b \in cands : \A b2 \in cands : PrioOf(c, b2) <= PrioOf(c, b)}
       IN IF Cardinality(best) = 1 THEN Ok(CHOOSE b \in best : TRUE)
          ELSE Err("BackendResolutionError")

---------------------------------------------------------------------------
(*                     Sequential state machine                            *)

(* Environment assumption of C11: a tensor of framework m exists only      *)
(* after module m has been imported.                                       *)
TypesPossible(imp, tt) ==
  \A i \in DOMAIN tt : tt[i] \in {"nd", "sc"} \/ \E m \in Range(imp) : tt[i] = TypeOf(m)

Names == BackendIds \cup {"nosuch"}

(* the stated environment of C11: numpy arrays / scalars are accepted by numpy-framework
   backends only, "numpy" itself is one of them *)
CfgOK(c) == c["numpy"].fw = "numpy"

(* Configuration spaces.  Synthetic backends are interchangeable (nothing in the code or in
   DocSelect looks at a name except "numpy"), so Init only ranges over configurations whose
   synthetic backends are sorted by CfgKey: one representative per orbit of the renaming group.
   "quick" additionally fixes numpy's real priority -1 and registration mode (on import). *)
FwKey(m)   == IF m = "numpy" THEN 0 ELSE IF m = "F" THEN 1 ELSE 2
CfgKey(r)  == FwKey(r.fw) * 100 + (r.prio + 5) * 4 + (IF r.lazy THEN 2 ELSE 0) + (IF r.healthy THEN 1 ELSE 0)
IdKey(b)   == IF b = "x" THEN 1 ELSE IF b = "y" THEN 2 ELSE IF b = "z" THEN 3 ELSE 0
Sorted(c)  == \A a, b \in BackendIds \ {"numpy"} : IdKey(a) < IdKey(b) => CfgKey(c[a]) <= CfgKey(c[b])
CfgQuick(c) == c["numpy"].prio = -1 /\ c["numpy"].lazy

Init ==
  /\ cfg \in {c \in [BackendIds -> CfgRec] : CfgOK(c) /\ Sorted(c) /\ (CfgSpace = "quick" => CfgQuick(c))}
  /\ declared = <<>>
  /\ imported \in {<<"numpy">>}
  /\ reg = EmptyReg
  /\ phase = "setup"

Undeclared == BackendIds \ Range(declared)

Register(b) ==
  /\ phase = "setup" \/ OpenWorld
  /\ b \in Undeclared
  /\ declared' = Append(declared, b)
  /\ reg' = IF cfg[b].lazy THEN DoRegisterOnImport(reg, cfg, imported, b) ELSE DoRegister(reg, b)
  /\ UNCHANGED <<cfg, imported, phase>>

StartUse ==
  /\ phase = "setup"
  /\ phase' = "use"
  /\ UNCHANGED <<cfg, declared, imported, reg>>

ImportModule(m) ==
  /\ phase = "use"
  /\ m \notin Range(imported)
  /\ imported' = Append(imported, m)
  /\ UNCHANGED <<cfg, declared, reg, phase>>

Args == {ArgNone} \cup {[k |-> "name", v |-> n] : n \in Names}
                  \cup {[k |-> "obj", v |-> b] : b \in Registered(reg)}

Get(arg, tt) ==
  /\ phase = "use"
  /\ TypesPossible(imported, tt)
  /\ reg' = DoGet(reg, cfg, imported, arg, tt).s
  /\ UNCHANGED <<cfg, declared, imported, phase>>

GetName(n) ==
  /\ phase = "use"
  /\ reg' = DoGetByName(reg, imported, n).s
  /\ UNCHANGED <<cfg, declared, imported, phase>>

GetTensors(tt) ==
  /\ phase = "use"
  /\ TypesPossible(imported, tt)
  /\ reg' = DoGetByTensors(reg, cfg, imported, tt).s
  /\ UNCHANGED <<cfg, declared, imported, phase>>

Enter(b) ==
  /\ phase = "use"
  /\ b \in Registered(reg)
  /\ Len(reg.stack) < MaxStack
  /\ reg' = DoEnter(reg, b)
  /\ UNCHANGED <<cfg, declared, imported, phase>>

Exit ==
  /\ phase = "use"
  /\ reg.stack # <<>>
  /\ reg' = DoExit(reg, reg.stack[Len(reg.stack)])
  /\ UNCHANGED <<cfg, declared, imported, phase>>

Next ==
  \/ \E b \in BackendIds : Register(b)
  \/ StartUse
  \/ \E m \in Mods : ImportModule(m)
  \/ \E tt \in TypeTuples : Get(ArgNone, tt)
  \/ \E a \in Args \ {ArgNone} : Get(a, <<>>)       \* name / object arguments ignore the tensors
  \/ (PublicRegistryMethods /\ \E n \in Names : GetName(n))
  \/ (PublicRegistryMethods /\ \E tt \in TypeTuples : GetTensors(tt))
  \/ \E b \in BackendIds : Enter(b)
  \/ Exit

Spec == Init /\ [][Next]_vars

---------------------------------------------------------------------------
(*                           Properties                                    *)

TypeOK ==
  /\ Range(reg.backends) \subseteq BackendIds
  /\ reg.seen \subseteq Mods
  /\ reg.memoK \subseteq TypeTuples
  /\ \A p \in Range(reg.memo) : p[2] \in Registered(reg)

(* C11: in every reachable state, every possible lookup returns exactly what *)
(* the documented rule prescribes — independent of memo, seen, registration *)
(* order and earlier lookups, because DocSelect reads none of them.         *)
C11_DocSelect ==
  phase = "use" =>
    /\ \A tt \in TypeTuples :
         TypesPossible(imported, tt) =>
           \A got \in {DoGet(reg, cfg, imported, ArgNone, tt).res} :      \* (bound once: TLC evaluates it once)
             ApiRes(cfg, got) = DocSelect(cfg, declared, imported, reg.stack, ArgNone, tt)
    /\ \A a \in Args \ {ArgNone} :      \* name / object arguments ignore the tensors
           \A got \in {DoGet(reg, cfg, imported, a, <<>>).res} :
             ApiRes(cfg, got) = DocSelect(cfg, declared, imported, reg.stack, a, <<>>)

(* the memo only ever stores what the documented rule would select          *)
C11_MemoSound ==
  phase = "use" =>
    \A p \in Range(reg.memo) :
      TypesPossible(imported, p[1]) =>
        ApiRes(cfg, Ok(p[2])) = DocSelect(cfg, declared, imported, <<>>, ArgNone, p[1])

(* a failing backend never disturbs the others: it is never a candidate     *)
C11_FailedIsolated ==
  phase = "use" /\ reg.stack = <<>> =>
    \A tt \in TypeTuples : TypesPossible(imported, tt) =>
      \A r \in {DoGet(reg, cfg, imported, ArgNone, tt).res} :
         r.k = "ok" => (Healthy(cfg, r.v) \/ (\A i \in DOMAIN tt : IsScalarT(tt[i])))

(* lazy factories are flushed only for imported modules                     *)
LazyOnlyUnimported ==
  \A m \in Mods : reg.lazy[m] # <<>> => m \notin reg.seen

=============================================================================
