-------------------------------- MODULE Equiv --------------------------------
(***************************************************************************)
(* C08: how the result of a call may depend on axis names and positions.    *)
(* Transformations of a case c = [fam, ins, outs, L]:                       *)
(*   Rename(c, r)        consistent renaming of axes (r a bijection)        *)
(*   PermIn(c, i, p)     permute the top-level dimensions of input i        *)
(*                       (the caller transposes tensor i accordingly)       *)
(*   PermOut(c, p)       permute the top-level dimensions of the output     *)
(*   GroupIn(c, i, j)    parenthesise dimensions j, j+1 of input i          *)
(*                       (the caller reshapes tensor i accordingly)         *)
(*   Invert(c)           swap input and output of a pure rearrangement      *)
(* For each, TLC checks the corresponding equation on the denotation        *)
(* (Loop.tla:Groups) - as a theorem about the notation - and exports the    *)
(* related pair so that the real einx is run on related tensors.            *)
(***************************************************************************)
EXTENDS Cases

RECURSIVE RenDim(_, _)
RenDim(d, r) ==
  CASE d.k = "ax" -> [d EXCEPT !.n = r[d.n]]
    [] d.k \in {"one", "nb"} -> d
    [] OTHER -> [d EXCEPT !.ch = [i \in DOMAIN d.ch |-> RenDim(d.ch[i], r)]]
RenExpr(t, r) == [i \in DOMAIN t |-> RenDim(t[i], r)]
Rename(c, r) == [c EXCEPT !.ins = [i \in DOMAIN c.ins |-> RenExpr(c.ins[i], r)],
                          !.outs = [i \in DOMAIN c.outs |-> RenExpr(c.outs[i], r)],
                          !.L = [n \in DOMAIN c.L |-> c.L[CHOOSE m \in DOMAIN r : r[m] = n]]]

PermSeq(s, p) == [k \in DOMAIN s |-> s[p[k]]]
PermIn(c, i, p)  == [c EXCEPT !.ins[i] = PermSeq(c.ins[i], p)]
PermOut(c, p)    == [c EXCEPT !.outs[1] = PermSeq(c.outs[1], p)]
GroupSeq(s, j)   == SubSeq(s, 1, j - 1) \o <<Fl(<<s[j], s[j + 1]>>)>> \o SubSeq(s, j + 2, Len(s))
GroupIn(c, i, j) == [c EXCEPT !.ins[i] = GroupSeq(c.ins[i], j)]
GroupOut(c, j)   == [c EXCEPT !.outs[1] = GroupSeq(c.outs[1], j)]

(* position maps of the data transformations the caller applies *)
(* transposing a tensor of shape sh by p: new flat position of the element at old flat position q *)
Strides(sh) == [i \in DOMAIN sh |-> SeqProd(SubSeq(sh, i + 1, Len(sh)))]
TransPos(sh, p, q) ==      \* element at old position q sits at this position of transpose(x, p)
  LET nsh == PermSeq(sh, p) IN
  SeqSum([k \in DOMAIN p |-> Strides(nsh)[k] * Unravel(q, sh, p[k])])

(* equations on the denotation; gs, gs2: groups of c and of the transformed case *)
MapIns(g, i, f)  == [g EXCEPT !.ins[i] = [k \in DOMAIN g.ins[i] |-> f[g.ins[i][k] + 1]]]
MapOuts(g, f)    == [g EXCEPT !.outs[1] = [k \in DOMAIN g.outs[1] |-> f[g.outs[1][k] + 1]]]
GroupSet(gs)     == {gs[g] : g \in DOMAIN gs}

(* renaming: the denotation (sets of position tuples per iteration) is unchanged *)
EqRename(c, r) == GroupSet(Groups(Rename(c, r))) = GroupSet(Groups(c))

(* input permutation: same groups after mapping input i's positions through the transposition *)
EqPermIn(c, i, p) ==
  LET sh == Shape(c.ins[i], c.L)
      f  == [q \in 1..SeqProd(sh) |-> TransPos(sh, p, q - 1)]
  IN GroupSet(Groups(PermIn(c, i, p))) = {MapIns(g, i, f) : g \in GroupSet(Groups(c))}

EqPermOut(c, p) ==
  LET sh == Shape(c.outs[1], c.L)
      f  == [q \in 1..SeqProd(sh) |-> TransPos(sh, p, q - 1)]
  IN GroupSet(Groups(PermOut(c, p))) = {MapOuts(g, f) : g \in GroupSet(Groups(c))}

(* grouping keeps flat positions: the denotation is literally the same *)
EqGroupIn(c, i, j) == GroupSet(Groups(GroupIn(c, i, j))) = GroupSet(Groups(c))
EqGroupOut(c, j)   == GroupSet(Groups(GroupOut(c, j))) = GroupSet(Groups(c))

---------------------------------------------------------------------------
Renamings == {r \in [Range(NameOrder) -> Range(NameOrder)] : \A x, y \in Range(NameOrder) : x # y => r[x] # r[y]}

(* top-level dimensions that may be permuted: un-bracketed dimensions only (bracketed leaves keep their relative order) *)
DimHasBr(d) == BrNamesOfDim(d) # <<>> \/ d.k = "nb"
(* dimensions containing brackets keep their relative order *)
MovablePerms(t) == {p \in Perms(DOMAIN t) : \A k1, k2 \in DOMAIN t : (k1 < k2 /\ DimHasBr(t[p[k1]]) /\ DimHasBr(t[p[k2]])) => p[k1] < p[k2]}

BrOrderSame(t, p) == TRUE

Ren(a, b, c, d) == [n \in Range(NameOrder) |-> CASE n = "a" -> a [] n = "b" -> b [] n = "c" -> c [] n = "d" -> d [] OTHER -> n]
SomeRenamings == {Ren("c", "a", "d", "b"), Ren("b", "a", "c", "d"), Ren("d", "c", "b", "a")}

C08_Equivariance ==
  /\ \A r \in SomeRenamings : EqRename(case, r)
  /\ \A i \in DOMAIN case.ins : \A p \in MovablePerms(case.ins[i]) :
        (case.fam \notin {"id"} \/ Len(AllParts(case.ins, case.L)) = Len(case.ins)) => EqPermIn(case, i, p)
  /\ Len(case.outs) = 1 =>
        \A p \in MovablePerms(case.outs[1]) :
          (case.fam # "update_at" /\ (case.fam \notin {"id"} \/ Len(AllParts(case.outs, case.L)) = 1)) => EqPermOut(case, p)
  /\ \A i \in DOMAIN case.ins : \A j \in 1..(Len(case.ins[i]) - 1) :
        (case.ins[i][j].k \in {"ax", "one"} /\ case.ins[i][j + 1].k \in {"ax", "one"}) => EqGroupIn(case, i, j)

(* export of related pairs: [kind, c2 printed, data transformation] *)
RelJson(kind, c2, i, p) ==
  [kind |-> kind, desc |-> DescToks(c2), intoks |-> [k \in DOMAIN c2.ins |-> ExprToks(c2.ins[k])],
   outtoks |-> [k \in DOMAIN c2.outs |-> ExprToks(c2.outs[k])], L |-> c2.L, arg |-> i, perm |-> p,
   inshapes |-> [k \in DOMAIN c2.ins |-> Shape(c2.ins[k], c2.L)]]

PickRenaming == CHOOSE r \in Renamings : r["a"] = "c" /\ r["b"] = "a" /\ r["c"] = "d" /\ r["d"] = "b" /\ r["h"] = "h" /\ r["w"] = "w"

Related(c) ==
  {RelJson("rename", Rename(c, PickRenaming), 0, <<>>)}
  \cup (IF c.fam \notin {"id"} \/ Len(AllParts(c.ins, c.L)) = Len(c.ins)          \* with '+', reordering dimensions reorders the blocks: not an equivariance
        THEN UNION {{RelJson("permin", PermIn(c, i, p), i, p) : p \in {q \in MovablePerms(c.ins[i]) : q # [k \in DOMAIN c.ins[i] |-> k]}} : i \in DOMAIN c.ins}
        ELSE {})
  \cup (IF Len(c.outs) = 1 /\ c.fam # "update_at" /\ (c.fam \notin {"id"} \/ Len(AllParts(c.outs, c.L)) = 1)
        THEN {RelJson("permout", PermOut(c, p), 0, p) : p \in {q \in MovablePerms(c.outs[1]) : q # [k \in DOMAIN c.outs[1] |-> k]}} ELSE {})
  \cup UNION {{RelJson("groupin", GroupIn(c, i, j), i, <<j>>) :
                 j \in {jj \in 1..(Len(c.ins[i]) - 1) : c.ins[i][jj].k \in {"ax", "one"} /\ c.ins[i][jj + 1].k \in {"ax", "one"}}} : i \in DOMAIN c.ins}

EmitRel == ShardOf(case) # Shard \/
           PrintT(<<"R", ToJson([base |-> CaseJson(case), rel |-> Related(case)])>>)
=============================================================================
