------------------------------- MODULE OptTerms -------------------------------
(***************************************************************************)
(* C05: the optimiser as a TERM REWRITING SYSTEM over data-movement graphs. *)
(*                                                                         *)
(* A term  [k, p, ch]  is a node of a traced graph:                         *)
(*   in   p = <<i>>        graph input i (shape InShapes[i])                *)
(*   T    p = permutation  np.transpose(ch[1], p)     (0-based entries)     *)
(*   R    p = shape        np.reshape(ch[1], p)                              *)
(*   B    p = shape        np.broadcast_to(ch[1], p)  (numpy alignment:     *)
(*                         trailing dimensions, rank may grow)              *)
(*   C    p = <<axis>>     np.concatenate(ch, axis)                          *)
(*   sub  p = <<>>         np.subtract(ch[1], ch[2])  (equal shapes)        *)
(* Its MEANING Sem(t) is, for every flat row-major output position, the     *)
(* element it holds: El(i, q) = element q of input i, or Sub(e1, e2).       *)
(* Two graphs with equal meaning agree on every input - also when axis      *)
(* lengths coincide and shapes cannot tell them apart.                      *)
(*                                                                         *)
(* Behaviours: Build steps wrap the current term in one more node (the      *)
(* tracer building a chain, sharing the sub-term when a node uses it        *)
(* twice); Rewrite steps apply one optimiser rule at one position (the      *)
(* rules of tracer/optimizer/classical.py).  Properties:                    *)
(*   C05_RewriteSound  every Rewrite step preserves Sem and the shape       *)
(*   C05_Measure       every Rewrite step decreases Size (termination)      *)
(* TLC explores all terms up to MaxDepth over the input shapes, and every   *)
(* built term is exported with its meaning for the replay through the real  *)
(* tracer, optimiser and code generator.                                    *)
(***************************************************************************)
EXTENDS Optimize, Json

CONSTANTS InShapes,      \* sequence of input shapes
          ShapePool,     \* target shapes for reshape / broadcast_to
          MaxDepth, MaxElems, Shard, NShards

VARIABLES t, phase       \* current term; "build" or "opt"
tvars == <<t, phase>>

Tm(k, p, ch) == [k |-> k, p |-> p, ch |-> ch]
In(i) == Tm("in", <<i>>, <<>>)

RECURSIVE ShapeOf(_)
ShapeOf(x) ==
  CASE x.k = "in"  -> InShapes[x.p[1]]
    [] x.k = "T"   -> TShape(ShapeOf(x.ch[1]), x.p)
    [] x.k \in {"R", "B"} -> x.p
    [] x.k = "C"   -> LET s1 == ShapeOf(x.ch[1]) ax == x.p[1] + 1 IN
                      [s1 EXCEPT ![ax] = LET RECURSIVE Sum(_) Sum(j) == IF j > Len(x.ch) THEN 0 ELSE ShapeOf(x.ch[j])[ax] + Sum(j + 1) IN Sum(1)]
    [] OTHER       -> ShapeOf(x.ch[1])

NumEl(x) == SeqProd(ShapeOf(x))
RECURSIVE Depth(_)
Depth(x) == IF x.ch = <<>> THEN 0 ELSE 1 + (LET RECURSIVE Mx(_) Mx(j) == IF j > Len(x.ch) THEN 0 ELSE (IF Depth(x.ch[j]) > Mx(j + 1) THEN Depth(x.ch[j]) ELSE Mx(j + 1)) IN Mx(1))
RECURSIVE Size(_)
Size(x) == 1 + (LET RECURSIVE Sm(_) Sm(j) == IF j > Len(x.ch) THEN 0 ELSE Size(x.ch[j]) + Sm(j + 1) IN Sm(1))

---------------------------------------------------------------------------
(* meaning *)
El(i, q) == [k |-> "el", i |-> i, q |-> q, ch |-> <<>>]
SubEl(a, b) == [k |-> "sub", i |-> 0, q |-> 0, ch |-> <<a, b>>]

FlatOf(c, sh) == LET s == Strides(sh) IN LET RECURSIVE Acc(_) Acc(a) == IF a > Len(sh) THEN 0 ELSE s[a] * c[a] + Acc(a + 1) IN Acc(1)

(* broadcast_to(x, sh): output position q -> input position *)
BMap(insh, sh, q) ==
  LET off == Len(sh) - Len(insh)
      c == [a \in DOMAIN insh |-> IF insh[a] = 1 THEN 0 ELSE Coord(q, sh, a + off)]
  IN FlatOf(c, insh)
Broadcastable(insh, sh) ==
  /\ Len(sh) >= Len(insh)
  /\ \A a \in DOMAIN insh : insh[a] = 1 \/ insh[a] = sh[a + Len(sh) - Len(insh)]

RECURSIVE Sem(_)
CatPiece(x, q) ==          \* <<piece index, flat position inside the piece>> for output position q of a concatenation
  LET sh == ShapeOf(x) ax == x.p[1] + 1
      c == [a \in DOMAIN sh |-> Coord(q, sh, a)]
      RECURSIVE Find(_, _)
      Find(j, off) == LET n == ShapeOf(x.ch[j])[ax] IN IF c[ax] < off + n THEN <<j, off>> ELSE Find(j + 1, off + n)
      f == Find(1, 0)
  IN <<f[1], FlatOf([c EXCEPT ![ax] = @ - f[2]], ShapeOf(x.ch[f[1]]))>>
Sem(x) ==
  CASE x.k = "in"  -> [q \in 1..SeqProd(InShapes[x.p[1]]) |-> El(x.p[1], q - 1)]
    [] x.k = "T"   -> LET s == Sem(x.ch[1]) m == TMap(ShapeOf(x.ch[1]), x.p) IN [q \in 1..Len(s) |-> s[m[q - 1] + 1]]
    [] x.k = "R"   -> Sem(x.ch[1])
    [] x.k = "B"   -> LET s == Sem(x.ch[1]) insh == ShapeOf(x.ch[1]) IN [q \in 1..SeqProd(x.p) |-> s[BMap(insh, x.p, q - 1) + 1]]
    [] x.k = "C"   -> LET ss == [j \in DOMAIN x.ch |-> Sem(x.ch[j])] IN
                      [q \in 1..NumEl(x) |-> LET f == CatPiece(x, q - 1) IN ss[f[1]][f[2] + 1]]
    [] OTHER       -> LET a == Sem(x.ch[1]) b == Sem(x.ch[2]) IN [q \in 1..Len(a) |-> SubEl(a[q], b[q])]

---------------------------------------------------------------------------
(* Build: the tracer wraps the current term *)
Ranks == 1..3
Wraps(x) ==
  LET sh == ShapeOf(x) n == Len(sh) IN
     {Tm("T", p, <<x>>) : p \in Perms(n)}
  \cup {Tm("R", s, <<x>>) : s \in {s2 \in ShapePool : SeqProd(s2) = SeqProd(sh)}}
  \cup {Tm("B", s, <<x>>) : s \in {s2 \in ShapePool : Broadcastable(sh, s2)}}
  \cup {Tm("C", <<ax>>, <<x>>) : ax \in 0..(n - 1)}
  \cup {Tm("C", <<ax>>, <<x, x>>) : ax \in 0..(n - 1)}                                        \* the same value consumed twice
  \cup {Tm("C", <<0>>, <<In(i), x>>) : i \in {j \in DOMAIN InShapes : Len(InShapes[j]) = n /\ Tail(InShapes[j]) = Tail(sh)}}
  \cup {Tm("sub", <<>>, <<x, In(i)>>) : i \in {j \in DOMAIN InShapes : InShapes[j] = sh}}
  \cup {Tm("sub", <<>>, <<In(i), x>>) : i \in {j \in DOMAIN InShapes : InShapes[j] = sh}}
  \cup {Tm("sub", <<>>, <<x, x>>)}

Build == /\ phase = "build" /\ Depth(t) < MaxDepth
         /\ \E w \in Wraps(t) : NumEl(w) <= MaxElems /\ t' = w
         /\ UNCHANGED phase
StartOpt == phase = "build" /\ phase' = "opt" /\ UNCHANGED t

---------------------------------------------------------------------------
(* Rewrite: one rule of tracer/optimizer/classical.py at the root or below *)
RootRewrites(x) ==
     (IF x.k = "T" /\ x.p = IdPerm(Len(x.p)) THEN {x.ch[1]} ELSE {})                                           \* SkipTranspose: no-op
  \cup (IF x.k = "T" /\ x.ch[1].k = "T" THEN {Tm("T", MergedPerm(x.ch[1].p, x.p), x.ch[1].ch)} ELSE {})            \* SkipTranspose: merge
  \cup (IF x.k = "R" /\ x.p = ShapeOf(x.ch[1]) THEN {x.ch[1]} ELSE {})                                           \* SkipReshape: no-op
  \cup (IF x.k = "R" /\ x.ch[1].k = "R" THEN {Tm("R", x.p, x.ch[1].ch)} ELSE {})                                 \* SkipReshape: merge
  \cup (IF x.k = "B" /\ x.p = ShapeOf(x.ch[1]) THEN {x.ch[1]} ELSE {})                                           \* SkipBroadcastTo: no-op
  \cup (IF x.k = "C" /\ Len(x.ch) = 1 THEN {x.ch[1]} ELSE {})                                                    \* SkipConcatenate: single
RECURSIVE Rewrites(_)
Rewrites(x) ==
  RootRewrites(x) \cup UNION {{[x EXCEPT !.ch[j] = y] : y \in Rewrites(x.ch[j])} : j \in DOMAIN x.ch}

Rewrite == phase = "opt" /\ \E y \in Rewrites(t) : t' = y /\ UNCHANGED phase

Init == phase = "build" /\ t \in {In(i) : i \in DOMAIN InShapes}
Next == Build \/ StartOpt \/ Rewrite
Spec == Init /\ [][Next]_tvars

---------------------------------------------------------------------------
C05_RewriteSound == [][(phase = "opt" /\ phase' = "opt") => (Sem(t') = Sem(t) /\ ShapeOf(t') = ShapeOf(t))]_tvars
C05_Measure      == [][(phase = "opt" /\ phase' = "opt") => Size(t') < Size(t)]_tvars
(* state form of the same obligations (cheaper for TLC: evaluated once per state on all successors) *)
C05_RulesSoundHere == \A y \in Rewrites(t) : Sem(y) = Sem(t) /\ ShapeOf(y) = ShapeOf(t) /\ Size(y) < Size(t)
(* vacuity guard, refuted by TLC: a rank-increasing broadcast is NOT a no-op even when the leading target dimensions equal the input's *)
RankIncreasingBroadcastIsNop == ~(t.k = "B" /\ Len(t.p) > Len(ShapeOf(t.ch[1])) /\ SubSeq(t.p, 1, Len(ShapeOf(t.ch[1]))) = ShapeOf(t.ch[1]))

---------------------------------------------------------------------------
(* export of every built term *)
TermJson == [term |-> t, shape |-> ShapeOf(t), sem |-> Sem(t), redexes |-> Cardinality(Rewrites(t)), size |-> Size(t)]
ShardOf == (Size(t) + NumEl(t) + Len(ShapeOf(t)) * 3) % NShards
Emit == phase # "build" \/ ShardOf # Shard \/ PrintT(<<"OT", ToJson(TermJson)>>)
=============================================================================
