-------------------------------- MODULE Solve --------------------------------
(***************************************************************************)
(* C02: what it MEANS to resolve a description against shapes and sizes.    *)
(*                                                                         *)
(* A system is [exprs, shapes, kw]:                                         *)
(*   exprs  : sequence of tensor expressions; a dimension is                *)
(*              [k|->"ax",n]  [k|->"num",v]  [k|->"fl",ch]  [k|->"ct",ch]   *)
(*              [k|->"el",in,id]   (in : ax or fl; id : ellipsis name)      *)
(*   shapes : per tensor a sequence of positive integers, or <<-1>> for an  *)
(*            unknown shape (None / tensor factory)                         *)
(*   kw     : sequence of [n, v] keyword sizes; v a sequence: <<x>> scalar, *)
(*            longer = one value per repetition                             *)
(* The semantics is a SET: all (repetition counts, axis lengths) over the   *)
(* positive integers that satisfy every stated constraint, computed by      *)
(* brute force within 1..M (M from the constants of the system, see         *)
(* DESIGN.md small-model argument).  It shares nothing with sympy.          *)
(***************************************************************************)
EXTENDS Naturals, Integers, Sequences, FiniteSets, TLC

Range(s) == {s[i] : i \in DOMAIN s}
RECURSIVE SeqSum(_)
SeqSum(s) == IF s = <<>> THEN 0 ELSE Head(s) + SeqSum(Tail(s))
RECURSIVE SeqProd(_)
SeqProd(s) == IF s = <<>> THEN 1 ELSE Head(s) * SeqProd(Tail(s))
RECURSIVE Flatten(_)
Flatten(ss) == IF ss = <<>> THEN <<>> ELSE Head(ss) \o Flatten(Tail(ss))

SAx(n)      == [k |-> "ax", n |-> n]
SNum(v)     == [k |-> "num", v |-> v]
SFl(ch)     == [k |-> "fl", ch |-> ch]
SCt(ch)     == [k |-> "ct", ch |-> ch]
SEl(in, id) == [k |-> "el", in |-> in, id |-> id]
Unknown     == <<-1>>

Suffix(i) == CASE i = 0 -> ".0" [] i = 1 -> ".1" [] i = 2 -> ".2" [] OTHER -> ".3"

(* names with suffix: an axis under an ellipsis is expanded to n.0, n.1, ... *)
RECURSIVE Rename(_, _)
Rename(d, sfx) ==
  CASE d.k = "ax"  -> SAx(d.n \o sfx)
    [] d.k = "num" -> d
    [] d.k = "el"  -> d        \* nested ellipses are not enumerated
    [] OTHER       -> [d EXCEPT !.ch = [i \in DOMAIN d.ch |-> Rename(d.ch[i], sfx)]]

(* expansion of an expression under repetition counts rho : id -> Nat *)
ExpandDim(d, rho) == IF d.k = "el" THEN [i \in 1..rho[d.id] |-> Rename(d.in, Suffix(i - 1))] ELSE <<d>>
Expand(t, rho) == Flatten([i \in DOMAIN t |-> ExpandDim(t[i], rho)])

RECURSIVE DimNamesS(_)
DimNamesS(d) == CASE d.k = "ax" -> {d.n} [] d.k = "num" -> {} [] d.k = "el" -> DimNamesS(d.in)
                  [] OTHER -> UNION {DimNamesS(d.ch[i]) : i \in DOMAIN d.ch}
ExprNamesS(t) == UNION {DimNamesS(t[i]) : i \in DOMAIN t}
EllIds(sys) == UNION {{t[i].id : i \in {j \in DOMAIN t : t[j].k = "el"}} : t \in Range(sys.exprs)}
(* base names under an ellipsis id *)
EllBase(sys, id) == UNION {UNION {DimNamesS(t[i].in) : i \in {j \in DOMAIN t : t[j].k = "el" /\ t[j].id = id}} : t \in Range(sys.exprs)}

RECURSIVE DimVal(_, _)
DimVal(d, L) ==
  CASE d.k = "ax"  -> L[d.n]
    [] d.k = "num" -> d.v
    [] d.k = "fl"  -> SeqProd([i \in DOMAIN d.ch |-> DimVal(d.ch[i], L)])
    [] OTHER       -> SeqSum([i \in DOMAIN d.ch |-> DimVal(d.ch[i], L)])

AllNames(sys, rho) == UNION {ExprNamesS(Expand(sys.exprs[i], rho)) : i \in DOMAIN sys.exprs}

(* keyword constraints under rho and L *)
KwHolds(sys, rho, L) ==
  \A j \in DOMAIN sys.kw :
    LET n == sys.kw[j].n  v == sys.kw[j].v
        ids == {id \in EllIds(sys) : n \in EllBase(sys, id)}
    IN IF ids = {} THEN (n \in DOMAIN L => (Len(v) = 1 /\ L[n] = v[1]))            \* plain axis (unused keywords are ignored)
       ELSE \A id \in ids :
              /\ (Len(v) = 1 \/ Len(v) = rho[id])                                    \* scalar, or one value per repetition
              /\ \A i \in 1..rho[id] : L[n \o Suffix(i - 1)] = (IF Len(v) = 1 THEN v[1] ELSE v[i])

ShapeHolds(sys, rho, L) ==
  \A i \in DOMAIN sys.exprs :
    sys.shapes[i] = Unknown \/
      LET e == Expand(sys.exprs[i], rho) IN
      /\ Len(e) = Len(sys.shapes[i])
      /\ \A j \in DOMAIN e : DimVal(e[j], L) = sys.shapes[i][j]

(* an ellipsis repeats a whole sub-expression: every id has ONE count; different ids over the same base name must agree *)
RhoConsistent(sys, rho) ==
  \A id1, id2 \in EllIds(sys) : (EllBase(sys, id1) \cap EllBase(sys, id2) # {}) => rho[id1] = rho[id2]

(* Brute force with early pruning: names are assigned one at a time (in a fixed order); a candidate value is kept
   only if every dimension / keyword whose names are all assigned is satisfied.  Same set as the naive definition
      { <<rho, L>> : L \in [AllNames -> 1..M], ShapeHolds /\ KwHolds }
   (checked against it by TLC on small instances: SolutionsAgree in MC_Solve.tla). *)
RECURSIVE DimAssigned(_, _)
DimAssigned(d, D) == CASE d.k = "ax" -> d.n \in D [] d.k = "num" -> TRUE [] OTHER -> \A i \in DOMAIN d.ch : DimAssigned(d.ch[i], D)

PartialOK(sys, rho, exprs, L) ==
  /\ \A i \in DOMAIN exprs :
        sys.shapes[i] = Unknown \/
          \A j \in DOMAIN exprs[i] : DimAssigned(exprs[i][j], DOMAIN L) => DimVal(exprs[i][j], L) = sys.shapes[i][j]
  /\ \A j \in DOMAIN sys.kw :
        LET n == sys.kw[j].n  v == sys.kw[j].v
            ids == {id \in EllIds(sys) : n \in EllBase(sys, id)}
        IN IF ids = {} THEN (n \in DOMAIN L => (Len(v) = 1 /\ L[n] = v[1]))
           ELSE \A id \in ids : \A i \in 1..rho[id] :
                  (n \o Suffix(i - 1)) \in DOMAIN L => L[n \o Suffix(i - 1)] = (IF Len(v) = 1 THEN v[1] ELSE v[i])

SetToSeq(S) == CHOOSE q \in [1..Cardinality(S) -> S] : \A i, j \in DOMAIN q : i # j => q[i] # q[j]
NameOrderS == <<"g0", "g1", "g2", "g0.0", "g1.0", "g2.0", "g0.1", "g1.1", "g2.1", "g0.2", "g1.2", "g2.2", "g0.3", "g1.3", "g2.3", "a", "b", "c", "_anon", "a.0", "b.0", "c.0", "_anon.0", "a.1", "b.1", "c.1", "_anon.1", "a.2", "b.2", "c.2", "_anon.2", "a.3", "b.3", "c.3", "_anon.3">>

(* A name that occurs in no dimension of a tensor with known shape and has no keyword is unconstrained: two values
   (1 and 2) witness the ambiguity, larger ones add nothing to the verdict. *)
Constrained(sys, rho, exprs, n) ==
  \/ \E i \in DOMAIN exprs : sys.shapes[i] # Unknown /\ n \in ExprNamesS(exprs[i])
  \/ \E j \in DOMAIN sys.kw : n = sys.kw[j].n \/ \E i \in 0..3 : n = sys.kw[j].n \o Suffix(i)

RECURSIVE Enum(_, _, _, _, _, _)
Enum(sys, rho, exprs, names, L, M) ==
  IF names = <<>> THEN {L}
  ELSE UNION { Enum(sys, rho, exprs, Tail(names), L2, M)
               : L2 \in { l \in { [x \in DOMAIN L \cup {Head(names)} |-> IF x = Head(names) THEN v ELSE L[x]]
                                    : v \in 1..(IF Constrained(sys, rho, exprs, Head(names)) THEN M ELSE 2) }
                              : PartialOK(sys, rho, exprs, l) } }

RankOK(sys, rho) ==
  /\ \A i \in DOMAIN sys.exprs : sys.shapes[i] = Unknown \/ Len(Expand(sys.exprs[i], rho)) = Len(sys.shapes[i])
  /\ \A j \in DOMAIN sys.kw :
        \A id \in {x \in EllIds(sys) : sys.kw[j].n \in EllBase(sys, x)} : Len(sys.kw[j].v) = 1 \/ Len(sys.kw[j].v) = rho[id]
  /\ \A j \in DOMAIN sys.kw : ({x \in EllIds(sys) : sys.kw[j].n \in EllBase(sys, x)} = {}) => Len(sys.kw[j].v) = 1

(* the notation: an axis name is used either with or without an ellipsis, never both (its depth is part of its identity) *)
PlainNames(sys) == UNION {UNION {DimNamesS(t[i]) : i \in {j \in DOMAIN t : t[j].k # "el"}} : t \in Range(sys.exprs)}
DepthConsistent(sys) == \A id \in EllIds(sys) : EllBase(sys, id) \cap PlainNames(sys) = {}

Solutions(sys, M, R) ==
  IF ~DepthConsistent(sys) THEN {} ELSE
  UNION { LET exprs == [i \in DOMAIN sys.exprs |-> Expand(sys.exprs[i], rho)]
              names == SelectSeq(NameOrderS, LAMBDA n : n \in AllNames(sys, rho))
          IN IF ~PartialOK(sys, rho, exprs, <<>>) THEN {}      \* dimensions without any axis name (numbers only)
             ELSE { [rho |-> rho, L |-> L] : L \in Enum(sys, rho, exprs, names, <<>>, M) }
          : rho \in {r \in [EllIds(sys) -> 0..R] : RhoConsistent(sys, r) /\ RankOK(sys, r)} }

(* reported quantities *)
ShapesOf(sys, s) == [i \in DOMAIN sys.exprs |-> LET e == Expand(sys.exprs[i], s.rho) IN [j \in DOMAIN e |-> DimVal(e[j], s.L)]]
AxesOf(sys, s)   == s        \* solve_axes reports every repetition count and every axis length

Verdict(sys, M, R, report(_, _)) ==
  LET S == Solutions(sys, M, R) IN
  IF S = {} THEN "none"
  ELSE IF \A s1, s2 \in S : report(sys, s1) = report(sys, s2) THEN "unique" ELSE "ambiguous"

---------------------------------------------------------------------------
(* Propagation: "all lengths follow by substituting known values one flattened / concatenated axis at a time".
   known : partial function name -> value, represented as a set of <<name, value>> pairs. *)
KGet(K, n) == (CHOOSE p \in K : p[1] = n)[2]
KHas(K, n) == \E p \in K : p[1] = n

RECURSIVE DimKnown(_, _)
DimKnown(d, K) == CASE d.k = "ax" -> KHas(K, d.n) [] d.k = "num" -> TRUE [] OTHER -> \A i \in DOMAIN d.ch : DimKnown(d.ch[i], K)
RECURSIVE DimValK(_, _)
DimValK(d, K) ==
  CASE d.k = "ax"  -> KGet(K, d.n)
    [] d.k = "num" -> d.v
    [] d.k = "fl"  -> SeqProd([i \in DOMAIN d.ch |-> DimValK(d.ch[i], K)])
    [] OTHER       -> SeqSum([i \in DOMAIN d.ch |-> DimValK(d.ch[i], K)])

(* given that dimension d has total size v, what new facts follow in one step? *)
RECURSIVE Learn(_, _, _)
Learn(d, v, K) ==
  CASE d.k = "ax"  -> IF KHas(K, d.n) THEN {} ELSE {<<d.n, v>>}
    [] d.k = "num" -> {}
    [] d.k = "fl"  ->
         LET unk == {i \in DOMAIN d.ch : ~DimKnown(d.ch[i], K)} IN
         IF Cardinality(unk) = 1 THEN
            LET i == CHOOSE j \in unk : TRUE
                rest == SeqProd([j \in DOMAIN d.ch |-> IF j = i THEN 1 ELSE DimValK(d.ch[j], K)])
            IN IF rest > 0 /\ v % rest = 0 /\ v \div rest >= 1 THEN Learn(d.ch[i], v \div rest, K) ELSE {}
         ELSE {}
    [] OTHER ->
         LET unk == {i \in DOMAIN d.ch : ~DimKnown(d.ch[i], K)} IN
         IF Cardinality(unk) = 1 THEN
            LET i == CHOOSE j \in unk : TRUE
                rest == SeqSum([j \in DOMAIN d.ch |-> IF j = i THEN 0 ELSE DimValK(d.ch[j], K)])
            IN IF v - rest >= 1 THEN Learn(d.ch[i], v - rest, K) ELSE {}
         ELSE {}

RECURSIVE PropagateL(_, _, _)
PropagateL(exprs, shapes, K) ==
  LET new == UNION {UNION {Learn(exprs[i][j], shapes[i][j], K) : j \in DOMAIN exprs[i]} : i \in {ii \in DOMAIN exprs : shapes[ii] # Unknown /\ Len(shapes[ii]) = Len(exprs[ii])}}
      fresh == {p \in new : ~KHas(K, p[1])}
  IN IF fresh = {} THEN K ELSE PropagateL(exprs, shapes, K \cup {CHOOSE p \in fresh : TRUE})

(* repetition counts that follow from ranks: an expression of known rank with exactly one ellipsis occurrence
   whose count is not yet known; or a per-repetition tuple keyword *)
NumEl(t) == Cardinality({j \in DOMAIN t : t[j].k = "el"})
RECURSIVE PropagateRho(_, _)
PropagateRho(sys, Rk) ==      \* Rk : set of <<id, count>>
  LET known(id) == \E p \in Rk : p[1] = id
      fromrank == UNION {
          LET t == sys.exprs[i]
              unk == {j \in DOMAIN t : t[j].k = "el" /\ ~known(t[j].id)}
          IN IF sys.shapes[i] # Unknown /\ Cardinality(unk) = 1 /\ Cardinality({t[j].id : j \in {jj \in DOMAIN t : t[jj].k = "el"}}) = NumEl(t)
             THEN LET j == CHOOSE jj \in unk : TRUE
                      others == SeqSum([jj \in DOMAIN t |-> IF jj = j THEN 0 ELSE IF t[jj].k = "el" THEN (CHOOSE p \in Rk : p[1] = t[jj].id)[2] ELSE 1])
                  IN IF Len(sys.shapes[i]) >= others THEN {<<t[j].id, Len(sys.shapes[i]) - others>>} ELSE {}
             ELSE {}
          : i \in DOMAIN sys.exprs}
      fromkw == UNION {{<<id, Len(sys.kw[j].v)>> : id \in {x \in EllIds(sys) : sys.kw[j].n \in EllBase(sys, x) /\ Len(sys.kw[j].v) > 1}} : j \in DOMAIN sys.kw}
      shared == UNION {{<<id2, p[2]>> : id2 \in {x \in EllIds(sys) : EllBase(sys, x) \cap EllBase(sys, p[1]) # {}}} : p \in Rk}
      fresh == {p \in fromrank \cup fromkw \cup shared : ~known(p[1])}
  IN IF fresh = {} THEN Rk ELSE PropagateRho(sys, Rk \cup {CHOOSE p \in fresh : TRUE})

(* complete propagation: all counts known, then all expanded axis lengths known *)
PropagationComplete(sys) ==
  LET Rk == PropagateRho(sys, {}) IN
  /\ \A id \in EllIds(sys) : \E p \in Rk : p[1] = id
  /\ LET rho == [id \in EllIds(sys) |-> (CHOOSE p \in Rk : p[1] = id)[2]]
         exprs == [i \in DOMAIN sys.exprs |-> Expand(sys.exprs[i], rho)]
         K0 == UNION {LET n == sys.kw[j].n v == sys.kw[j].v
                          ids == {id \in EllIds(sys) : n \in EllBase(sys, id)}
                      IN IF ids = {} THEN (IF Len(v) = 1 THEN {<<n, v[1]>>} ELSE {})
                         ELSE UNION {{<<n \o Suffix(i - 1), IF Len(v) = 1 THEN v[1] ELSE v[i]>> : i \in 1..(IF Len(v) = 1 THEN rho[id] ELSE Len(v))} : id \in ids}
                      : j \in DOMAIN sys.kw}
         K == PropagateL(exprs, sys.shapes, K0)
     IN \A n \in AllNames(sys, rho) : KHas(K, n)
=============================================================================
