------------------------------ MODULE MC_Parse ------------------------------
(* Explore: every token sequence up to MaxLen over the alphabet (lexer image only). *)
EXTENDS Parse
CONSTANTS MaxLen
VARIABLE toks
Init == toks = <<>>
Next == /\ Len(toks) < MaxLen
        /\ \E t \in Alphabet : toks' = Append(toks, t) /\ WellLexed(toks')
Spec == Init /\ [][Next]_toks

SameVerdict(a, b) == a.ok = b.ok /\ (a.ok => a.tree = b.tree)

(* C12 clause 1 on the specification: Parse is defined (TLC evaluates it) on every sequence *)
C12_Total == Parse(toks).ok \in BOOLEAN
(* C12 clause 2: redundant spaces never change whether / how a string parses *)
C12_SpaceInvariant == \A v \in SpaceVariants(toks) : SameVerdict(Parse(v), Parse(toks))
(* C12 clause 3: every accepted expression can be written back and re-read to the same structure *)
C12_RoundTrip == \A r \in {Parse(toks)} : r.ok => (Printable(r.tree) /\ SameVerdict(Parse(PrintE(r.tree)), r))
=============================================================================
