SPECIFICATION Spec
CONSTANTS
  BackendIds = {"numpy", "x", "y"}
  Mods = {"numpy", "F"}
  OpenWorld = FALSE
  MaxStack = 1
  CfgSpace = "quick"
  PublicRegistryMethods = FALSE
  MemoMax = 1
CONSTRAINT MemoBound
CONSTRAINT AllDeclared
INVARIANT TypeOK
INVARIANT C11_DocSelect
INVARIANT C11_MemoSound
INVARIANT LazyOnlyUnimported
CHECK_DEADLOCK FALSE
