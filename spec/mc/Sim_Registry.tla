---------------------------- MODULE Sim_Registry ----------------------------
(* Behaviour generator for Replay (spec -> code): Registry.tla plus a history
   variable that records every action with its arguments, the result the
   specification predicts and the full predicted post-state.  Only used with
   `tlc -simulate` (the history makes every state distinct). *)
EXTENDS Registry, Json
CONSTANTS Depth
VARIABLE hist

Post == [backends |-> reg'.backends, lazy |-> reg'.lazy, seen |-> reg'.seen,
         memo |-> reg'.memo, stack |-> reg'.stack, imported |-> imported']

Rec(a, x, tt, res) == [a |-> a, x |-> x, tt |-> tt, res |-> res, post |-> Post,
                       doc |-> IF a = "Get" THEN DocSelect(cfg, declared, imported, reg.stack, ArgNone, tt)
                               ELSE IF a = "GetName" THEN DocSelect(cfg, declared, imported, reg.stack, [k |-> "name", v |-> x], tt)
                               ELSE IF a = "GetObj" THEN DocSelect(cfg, declared, imported, reg.stack, [k |-> "obj", v |-> x], tt)
                               ELSE [k |-> "none", v |-> Nil]]
NoRes == [k |-> "none", v |-> Nil]

SimInit == Init /\ hist = <<>>

SimNextAll ==
  \/ \E b \in BackendIds : Register(b) /\ hist' = Append(hist, Rec("Register", b, <<>>, NoRes))
  \/ StartUse /\ hist' = Append(hist, Rec("StartUse", Nil, <<>>, NoRes))
  \/ \E m \in Mods : ImportModule(m) /\ hist' = Append(hist, Rec("Import", m, <<>>, NoRes))
  \/ \E tt \in TypeTuples : Get(ArgNone, tt)
        /\ hist' = Append(hist, Rec("Get", Nil, tt, ApiRes(cfg, DoGet(reg, cfg, imported, ArgNone, tt).res)))
  \/ \E n \in Names : Get([k |-> "name", v |-> n], <<>>)
        /\ hist' = Append(hist, Rec("GetName", n, <<>>, ApiRes(cfg, DoGet(reg, cfg, imported, [k |-> "name", v |-> n], <<>>).res)))
  \/ \E b \in Registered(reg) : Get([k |-> "obj", v |-> b], <<>>)
        /\ hist' = Append(hist, Rec("GetObj", b, <<>>, ApiRes(cfg, DoGet(reg, cfg, imported, [k |-> "obj", v |-> b], <<>>).res)))
  \/ \E n \in Names : GetName(n) /\ hist' = Append(hist, Rec("RegGetByName", n, <<>>, DoGetByName(reg, imported, n).res))
  \/ \E tt \in TypeTuples : GetTensors(tt) /\ hist' = Append(hist, Rec("RegGetByTensors", Nil, tt, DoGetByTensors(reg, cfg, imported, tt).res))
  \/ \E b \in BackendIds : Enter(b) /\ hist' = Append(hist, Rec("Enter", b, <<>>, NoRes))
  \/ Exit /\ hist' = Append(hist, Rec("Exit", reg.stack[Len(reg.stack)], <<>>, NoRes))

SimNextStack ==
  \/ \E b \in BackendIds : Register(b) /\ hist' = Append(hist, Rec("Register", b, <<>>, NoRes))
  \/ StartUse /\ hist' = Append(hist, Rec("StartUse", Nil, <<>>, NoRes))
  \/ \E tt \in {<<>>, <<"nd">>} : Get(ArgNone, tt)
        /\ hist' = Append(hist, Rec("Get", Nil, tt, ApiRes(cfg, DoGet(reg, cfg, imported, ArgNone, tt).res)))
  \/ \E b \in BackendIds : Enter(b) /\ hist' = Append(hist, Rec("Enter", b, <<>>, NoRes))
  \/ Exit /\ hist' = Append(hist, Rec("Exit", reg.stack[Len(reg.stack)], <<>>, NoRes))

SimSpecStack == SimInit /\ [][SimNextStack]_<<vars, hist>>
SimNext == SimNextAll
SimSpec == SimInit /\ [][SimNext]_<<vars, hist>>

Emit == Len(hist) < Depth \/ PrintT(<<"H", ToJson([cfg |-> cfg, hist |-> hist])>>)
=============================================================================
