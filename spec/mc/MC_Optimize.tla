----------------------------- MODULE MC_Optimize -----------------------------
(* Explore for C05: one state per (shape, perm1, perm2); the rule theorems are invariants. *)
EXTENDS Optimize
VARIABLE inst
Init == inst \in UNION {{[sh |-> sh, p1 |-> p1, p2 |-> p2] : p1 \in Perms(Len(sh)), p2 \in Perms(Len(sh))} : sh \in TestShapes}
Next == FALSE /\ inst' = inst
Spec == Init /\ [][Next]_inst

C05_MergeTransposeSound ==
  ComposeMaps(TMap(TShape(inst.sh, inst.p1), inst.p2), TMap(inst.sh, inst.p1)) = TMap(inst.sh, MergedPerm(inst.p1, inst.p2))
C05_NopTransposeExact ==
  (\A i \in DOMAIN inst.sh : inst.sh[i] > 1) =>
     ((TMap(inst.sh, inst.p1) = IdMap(SeqProd(inst.sh)) /\ TShape(inst.sh, inst.p1) = inst.sh) <=> inst.p1 = IdPerm(Len(inst.sh)))
(* merged permutations are permutations; merging with the inverse gives the identity *)
C05_MergedIsPerm == MergedPerm(inst.p1, inst.p2) \in Perms(Len(inst.sh))
=============================================================================
