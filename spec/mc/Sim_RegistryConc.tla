------------------------- MODULE Sim_RegistryConc -------------------------
(* schedule generator for Replay: RegistryConc + JSON export of complete executions *)
EXTENDS RegistryConc, Json
Emit == ~AllDone \/ PrintT(<<"S", ToJson([prog |-> prog, sched |-> sched, results |-> results,
                                          final |-> [backends |-> reg.backends, lazy |-> reg.lazy, seen |-> reg.seen,
                                                     memo |-> reg.memo, stack |-> reg.stack],
                                          lin |-> ([final |-> Proj(reg), results |-> results] \in SerialOutcomes)])>>)
=============================================================================
