---------------------------- MODULE MC_Registry ----------------------------
EXTENDS Registry
CONSTANTS MemoMax
(* memo entries are independent of each other and of the with-stack (the stack is
   consulted before the memo, the memo before everything else), so the bounded
   model explores them separately: up to MemoMax memo entries with an empty stack,
   or any stack with an empty memo. *)
MemoBound == /\ Cardinality(reg.memoK) <= MemoMax
             /\ (reg.stack # <<>> => reg.memoK = {})
(* all backends are declared before use begins (sub-configurations are the
   same as smaller BackendIds) *)
AllDeclared == phase = "use" => Len(declared) = Cardinality(BackendIds)
=============================================================================
