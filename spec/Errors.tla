-------------------------------- MODULE Errors --------------------------------
(***************************************************************************)
(* C03: how an einx entry point may end.  A record                          *)
(*   [toks, entry, op, outcome, edit]                                       *)
(* is one real call: the description as token sequence, the entry point,    *)
(* the observed outcome class ("ok", an exception class name, or            *)
(* "False"/"True" for matches) and, for corrupted calls, the kind of        *)
(* single-edit corruption that was applied to a valid call.                 *)
(* Rules (the pipeline has no action that ends in an internal exception):   *)
(*  NoInternal     the outcome is a value or a documented exception class   *)
(*  SyntaxFirst    a description that Parse.tla rejects ends in             *)
(*                 einx.errors.SyntaxError (matches: False), whatever the   *)
(*                 tensors are - nothing runs before parsing succeeds       *)
(*  NeverComputed  an edit that makes the tensors contradict the            *)
(*                 description (dimension changed, dimension added, tensor  *)
(*                 removed / added), or that breaks a stated bracket rule   *)
(*                 (a contracted axis in three inputs of dot, two bracketed *)
(*                 axes for sort, a coordinate count that does not match    *)
(*                 the bracketed target axes) must be rejected: no value, no*)
(*                 CallOperationError (which would mean backend computation *)
(*                 ran), one of the documented classes                      *)
(***************************************************************************)
EXTENDS Parse, Json, IOUtils, TLCExt
Recs == ndJsonDeserialize(IOEnv.TRACE_FILE)
VARIABLE tid
Init == tid \in 1..Len(Recs)
Next == FALSE /\ tid' = tid
Spec == Init /\ [][Next]_tid

Documented == {"SyntaxError", "RankError", "AxisSizeError", "SemanticError", "OperationNotSupportedError", "BackendResolutionError", "ValueError", "TypeError"}
Values     == {"ok", "True", "False"}
MustReject == {"dim_changed", "dim_zero", "dim_added", "tensor_removed", "tensor_added",
               (* violations of an operation's stated bracket / axis rules *)
               "dot_axis_in_three_inputs", "sort_with_two_brackets", "coordinate_count_mismatch",
               (* a per-repetition size vector whose number of entries contradicts the rank of the tensor *)
               "keyword_vector_wrong_count"}

(* The operations' stated bracket rules, decided on the tree Parse.tla assigns to the description (so for EVERY string,
   also with brackets inside or around an ellipsis, a parenthesis or a concatenation):
     id, element-wise operations      no brackets in any input or output expression
     reductions, dot, get_at          no brackets in the output expression
     shape-preserving operations      the (explicit) output has brackets iff the input has
   (operations whose elementary signature has only scalar arguments there: einx_from_namedtensor.py:_parse_op.check) *)
RECURSIVE HasBr(_)
HasBr(x) == CASE x.k = "axis" -> FALSE
              [] x.k = "br" -> TRUE
              [] x.k \in {"flat", "ell"} -> HasBr(x.in)
              [] OTHER -> \E i \in DOMAIN x.ch : HasBr(x.ch[i])
NoBrAnywhere == {"id", "add", "less"}
NoBrInOutput == {"sum", "max", "dot", "get_at"}
SameBrInOut  == {"softmax", "flip", "sort"}
BracketRuleBroken(r) ==
  LET p == Parse(r.toks) IN
  /\ p.ok
  /\ LET ins == p.tree.ch[1].ch
         outs == IF Len(p.tree.ch) > 1 THEN p.tree.ch[2].ch ELSE <<>>
     IN \/ r.op \in NoBrAnywhere /\ ((\E i \in DOMAIN ins : HasBr(ins[i])) \/ (\E i \in DOMAIN outs : HasBr(outs[i])))
        \/ r.op \in NoBrInOutput /\ (\E i \in DOMAIN outs : HasBr(outs[i]))
        \/ r.op \in SameBrInOut /\ Len(ins) = 1 /\ Len(outs) = 1 /\ HasBr(ins[1]) # HasBr(outs[1])
BracketRules(r)  == BracketRuleBroken(r) => r.outcome \in Documented \cup {"False"}

NoInternal(r)    == r.outcome \in Documented \cup Values
SyntaxFirst(r)   == ~Parse(r.toks).ok => r.outcome \in {"SyntaxError", "False"}
NeverComputed(r) == r.edit \in MustReject => r.outcome \in Documented \cup {"False"}
NoFalseSyntax(r) == (Parse(r.toks).ok /\ r.edit = "none_wellformed") => r.outcome # "SyntaxError"

Chk == /\ (NoInternal(Recs[tid]) \/ PrintT(<<"INTERNAL", tid>>))
       /\ (SyntaxFirst(Recs[tid]) \/ PrintT(<<"NOTSYNTAX", tid>>))
       /\ (NeverComputed(Recs[tid]) \/ PrintT(<<"COMPUTED", tid>>))
       /\ (NoFalseSyntax(Recs[tid]) \/ PrintT(<<"FALSESYNTAX", tid>>))
       /\ (BracketRules(Recs[tid]) \/ PrintT(<<"BRACKETRULE", tid>>))
=============================================================================
