-------------------------------- MODULE Errors --------------------------------
(***************************************************************************)
(* C03: how an einx entry point may end.  A record                          *)
(*   [toks, entry, outcome, edit]                                           *)
(* is one real call: the description as token sequence, the entry point,    *)
(* the observed outcome class ("ok", an exception class name, or            *)
(* "False"/"True" for matches) and, for corrupted calls, the kind of        *)
(* single-edit corruption that was applied to a valid call.                 *)
(* Rules (the pipeline has no action that ends in an internal exception):   *)
(*  NoInternal     the outcome is a value or a documented exception class   *)
(*  SyntaxFirst    a description that Parse.tla rejects ends in             *)
(*                 einx.errors.SyntaxError (matches: False), whatever the   *)
(*                 tensors are - nothing runs before parsing succeeds       *)
(*  NeverComputed  an edit that makes the tensors contradict the            *)
(*                 description (dimension changed, dimension added, tensor  *)
(*                 removed / added), or that breaks a stated bracket rule   *)
(*                 (a contracted axis in three inputs of dot, two bracketed *)
(*                 axes for sort, a coordinate count that does not match    *)
(*                 the bracketed target axes) must be rejected: no value, no*)
(*                 CallOperationError (which would mean backend computation *)
(*                 ran), one of the documented classes                      *)
(***************************************************************************)
EXTENDS Parse, Json, IOUtils, TLCExt
Recs == ndJsonDeserialize(IOEnv.TRACE_FILE)
VARIABLE tid
Init == tid \in 1..Len(Recs)
Next == FALSE /\ tid' = tid
Spec == Init /\ [][Next]_tid

Documented == {"SyntaxError", "RankError", "AxisSizeError", "SemanticError", "OperationNotSupportedError", "BackendResolutionError", "ValueError", "TypeError"}
Values     == {"ok", "True", "False"}
MustReject == {"dim_changed", "dim_added", "tensor_removed", "tensor_added",
               (* violations of an operation's stated bracket / axis rules *)
               "dot_axis_in_three_inputs", "sort_with_two_brackets", "coordinate_count_mismatch"}

NoInternal(r)    == r.outcome \in Documented \cup Values
SyntaxFirst(r)   == ~Parse(r.toks).ok => r.outcome \in {"SyntaxError", "False"}
NeverComputed(r) == r.edit \in MustReject => r.outcome \in Documented \cup {"False"}
NoFalseSyntax(r) == (Parse(r.toks).ok /\ r.edit = "none_wellformed") => r.outcome # "SyntaxError"

Chk == /\ (NoInternal(Recs[tid]) \/ PrintT(<<"INTERNAL", tid>>))
       /\ (SyntaxFirst(Recs[tid]) \/ PrintT(<<"NOTSYNTAX", tid>>))
       /\ (NeverComputed(Recs[tid]) \/ PrintT(<<"COMPUTED", tid>>))
       /\ (NoFalseSyntax(Recs[tid]) \/ PrintT(<<"FALSESYNTAX", tid>>))
=============================================================================
