-------------------------------- MODULE Cases --------------------------------
(***************************************************************************)
(* The space of well-formed calls that TLC enumerates (the shared corpus of *)
(* C01, C07, C08, C09, C13, C14, C15, C16, C17) and their export with the   *)
(* loop-notation denotation (Loop.tla) attached.                            *)
(*                                                                         *)
(* One TLC state = one case [fam, ins, outs, L].  There are no transitions: *)
(* Init ranges over the whole case set of the selected family, the          *)
(* invariant WellDefinedInv is evaluated on every case, and the CONSTRAINT  *)
(* Emit prints every case with its Groups as one JSON line (Replay input).  *)
(***************************************************************************)
EXTENDS Loop, Json

CONSTANTS
  Family,      \* which family's case set Init ranges over
  Names,       \* axis names available, e.g. {"a","b","c"}
  Lens,        \* set of length assignments (each a function Names \cup {"d"} -> 1..3), as a set of sequences aligned with NameOrder
  MaxDims,     \* max dimensions per tensor expression
  MaxLeaves,   \* max leaves (axes) per tensor expression
  Shard, NShards

VARIABLE case
vars == <<case>>

LFun(ls) == [n \in Range(NameOrder) |-> ls[IndexIn(NameOrder, n)]]

---------------------------------------------------------------------------
(* building blocks *)
AxU(n) == Ax(n, FALSE)
AxB(n) == Ax(n, TRUE)
Nb(v)  == [k |-> "nb", v |-> v]       \* bracketed literal number [v] (coordinate / index axis)

Pairs == {p \in Names \X Names : p[1] # p[2]}
PlainDims == {AxU(n) : n \in Names} \cup {One}
            \cup {Fl(<<AxU(p[1]), AxU(p[2])>>) : p \in Pairs}
            \cup {Fl(<<AxU(x), One>>) : x \in Names}

SeqsUpTo(S, n) == UNION {[1..m -> S] : m \in 0..n}

RECURSIVE DimNames(_)
DimNames(d) == CASE d.k = "ax" -> <<d.n>> [] d.k \in {"one", "nb"} -> <<>> [] OTHER -> Flatten([i \in DOMAIN d.ch |-> DimNames(d.ch[i])])
ExprNames(t) == Flatten([i \in DOMAIN t |-> DimNames(t[i])])
NameSet(t) == Range(ExprNames(t))
NoRepeat(s) == Cardinality(Range(s)) = Len(s)
MaxRepeat(s, m) == \A x \in Range(s) : CountIn(x, s) <= m

RECURSIVE DimLeafCount(_)
DimLeafCount(d) == IF d.k \in {"ax", "one", "nb"} THEN 1 ELSE SeqSum([i \in DOMAIN d.ch |-> DimLeafCount(d.ch[i])])
LeafCount(t) == SeqSum([i \in DOMAIN t |-> DimLeafCount(t[i])])

RECURSIVE BrNamesOfDim(_)
BrNamesOfDim(d) == CASE d.k = "ax" -> (IF d.br THEN <<d.n>> ELSE <<>>) [] d.k \in {"one", "nb"} -> <<>>
                     [] OTHER -> Flatten([i \in DOMAIN d.ch |-> BrNamesOfDim(d.ch[i])])
BrNamesOf(t) == Flatten([i \in DOMAIN t |-> BrNamesOfDim(t[i])])
UnbrNames(t) == {n \in NameSet(t) : n \notin Range(BrNamesOf(t))}

Perms(S) == {s \in [1..Cardinality(S) -> S] : NoRepeat(s)}

---------------------------------------------------------------------------
(* id: rearrangement, diagonal, squeeze, broadcast, flatten/unflatten, concat/split *)
IdIns  == {t \in SeqsUpTo(PlainDims, MaxDims) : Len(t) >= 1 /\ MaxRepeat(ExprNames(t), 2) /\ LeafCount(t) <= MaxLeaves}
OutDims == PlainDims \cup {AxU("d")} \cup {Fl(<<AxU(x), AxU("d")>>) : x \in Names}
IdOuts == {t \in SeqsUpTo(OutDims, MaxDims) : NoRepeat(ExprNames(t)) /\ LeafCount(t) <= MaxLeaves}

IdPlain(L) == {[fam |-> "id", ins |-> <<i>>, outs |-> <<o>>, L |-> L] : i \in IdIns, o \in IdOuts}

(* concat / split with one '+': shared axes X before, Y after *)
CatAtoms == {AxU(n) : n \in Names} \cup {One} \cup {Fl(<<AxU(p[1]), AxU(p[2])>>) : p \in Pairs}
Shared   == {<<>>} \cup {<<AxU(n)>> : n \in Names}
IdCat(L) ==
  UNION {
    { [fam |-> "id", ins |-> <<x \o <<p>> \o y, x \o <<q>> \o y>>, outs |-> <<x \o <<Ct(<<p, q>>)>> \o y>>, L |-> L],
      [fam |-> "id", ins |-> <<x \o <<Ct(<<p, q>>)>> \o y>>, outs |-> <<x \o <<p>> \o y, x \o <<q>> \o y>>, L |-> L],
      [fam |-> "id", ins |-> <<x \o <<p>> \o y, <<One>>>>, outs |-> <<x \o <<Ct(<<p, One>>)>> \o y>>, L |-> L],
      [fam |-> "id", ins |-> <<y \o <<p>> \o x, x \o y \o <<q>>>>, outs |-> <<x \o <<Ct(<<q, p>>)>> \o y>>, L |-> L] }
    : x \in Shared, y \in Shared, p \in CatAtoms, q \in CatAtoms }

(* two concatenations in one output: blocks in row-major order *)
IdCat2(L) ==
  { [fam |-> "id",
     ins |-> <<<<AxU(p), AxU(r)>>, <<AxU(p), AxU(s)>>, <<AxU(q), AxU(r)>>, <<AxU(q), AxU(s)>>>>,
     outs |-> <<<<Ct(<<AxU(p), AxU(q)>>), Ct(<<AxU(r), AxU(s)>>)>>>>, L |-> L]
    : p \in Names, q \in Names, r \in Names \cup {"c", "d"}, s \in {"c", "d"} }

(* diagonals: one name repeated in a 3-4 axis input, every arrangement of the output *)
IdDiag(L) ==
  UNION {{[fam |-> "id", ins |-> <<[k \in DOMAIN i |-> AxU(i[k])]>>, outs |-> <<[k \in DOMAIN p |-> AxU(p[k])]>>, L |-> L]
            : p \in Perms(Range(i))}
         : i \in {s \in [1..3 -> Names] \cup [1..4 -> Names] : Cardinality(Range(s)) = Len(s) - 1}}

IdValid(c) ==
  /\ \A i \in DOMAIN c.ins : \A j \in DOMAIN c.ins[i] : TRUE
  /\ IdPartsMatch(c)
  /\ \A k \in DOMAIN AllParts(c.outs, c.L) : NoRepeat(SelectSeq([i \in DOMAIN AllParts(c.outs, c.L)[k].lv |-> AllParts(c.outs, c.L)[k].lv[i].n], LAMBDA n : n # "1"))

---------------------------------------------------------------------------
(* elementwise: scalar inputs, explicit output *)
ElIn  == {t \in SeqsUpTo(PlainDims, MaxDims) : NoRepeat(ExprNames(t)) /\ LeafCount(t) <= MaxLeaves}
Elementwise(L) ==
  {[fam |-> "elementwise", ins |-> <<i1, i2>>, outs |-> <<o>>, L |-> L] :
      i1 \in ElIn, i2 \in ElIn, o \in {t \in SeqsUpTo(PlainDims \cup {AxU("d")}, MaxDims) : NoRepeat(ExprNames(t))}}
ElValid(c) ==
  /\ \A i \in DOMAIN c.ins : {n \in NameSet(c.ins[i]) : c.L[n] # 1} \subseteq NameSet(c.outs[1])

---------------------------------------------------------------------------
(* reduce / preserve_shape / argfind inputs: leaves may be bracketed *)
BrDims == {AxU(n) : n \in Names} \cup {AxB(n) : n \in Names} \cup {One}
          \cup {Fl(<<Ax(p[1], bx), Ax(p[2], by)>>) : p \in Pairs, bx \in BOOLEAN, by \in BOOLEAN}
BrIns == {t \in SeqsUpTo(BrDims, MaxDims) : Len(t) >= 1 /\ NoRepeat(ExprNames(t)) /\ LeafCount(t) <= MaxLeaves /\ BrNamesOf(t) # <<>>}

Reduce(L) ==
  UNION {{[fam |-> "reduce", ins |-> <<i>>, outs |-> <<[k \in DOMAIN p |-> AxU(p[k])]>>, L |-> L] : p \in Perms(UnbrNames(i))} : i \in BrIns}

(* preserve_shape: the output is the input with its top-level dimensions permuted; bracketed leaves keep their order *)
DimPerms(t) == {[k \in DOMAIN t |-> t[p[k]]] : p \in Perms(DOMAIN t)}
Preserve(L) ==
  UNION {{[fam |-> "preserve", ins |-> <<i>>, outs |-> <<o>>, L |-> L] : o \in {o2 \in DimPerms(i) : BrNamesOf(o2) = BrNamesOf(i)}} : i \in BrIns}

(* the same name on two bracketed axes ([x] [x] y, [x] y [x], ...): they are still two axes of the sub-tensor, paired
   with the output's bracketed axes in order of occurrence *)
PreserveRep(L) ==
  UNION {UNION {{[fam |-> "preserve", ins |-> <<i>>, outs |-> <<o>>, L |-> L] : o \in DimPerms(i)}
                  : i \in {<<AxB(p[1]), AxB(p[1]), AxU(p[2])>>, <<AxB(p[1]), AxU(p[2]), AxB(p[1])>>, <<AxU(p[2]), AxB(p[1]), AxB(p[1])>>}}
         : p \in Pairs}

(* argfind: output = loop axes (any order) followed / preceded by [n] with n = number of bracketed input axes *)
Argfind(L) ==
  UNION {UNION {{[fam |-> "argfind", ins |-> <<i>>, outs |-> <<[k \in DOMAIN p |-> AxU(p[k])] \o <<Nb(Len(BrNamesOf(i)))>>>>, L |-> L],
                 [fam |-> "argfind", ins |-> <<i>>, outs |-> <<<<Nb(Len(BrNamesOf(i)))>> \o [k \in DOMAIN p |-> AxU(p[k])]>>, L |-> L]}
                : p \in Perms(UnbrNames(i))} : i \in {t \in BrIns : Len(BrNamesOf(t)) <= 2}}

---------------------------------------------------------------------------
(* dot: two inputs of plain axes; contracted axes are bracketed in both inputs *)
DotIn == {t \in SeqsUpTo({AxU(n) : n \in Names \cup {"d"}} \cup {AxB(n) : n \in Names \cup {"d"}}, MaxDims) : NoRepeat(ExprNames(t)) /\ Len(t) >= 1}
Dot(L) ==
  UNION {{[fam |-> "dot", ins |-> <<i1, i2>>, outs |-> <<[k \in DOMAIN p |-> AxU(p[k])]>>, L |-> L]
            : p \in Perms(UnbrNames(i1) \cup UnbrNames(i2))}
         : i1 \in DotIn, i2 \in {t \in DotIn : TRUE}}
(* three operands (a chain of two contractions, optional batch axis on the outer operands) *)
Dot3(L) ==
  UNION {UNION {UNION {
     {[fam |-> "dot", ins |-> <<x \o <<AxB(p)>>, <<AxB(p), AxB(q)>>, <<AxB(q)>> \o y>>, outs |-> <<[k \in DOMAIN o |-> AxU(o[k])]>>, L |-> L]
        : o \in Perms(NameSet(x) \cup NameSet(y))}
     : x \in {<<>>} \cup {<<AxU(n)>> : n \in Names \ {p, q}}, y \in {<<>>} \cup {<<AxU(n)>> : n \in (Names \cup {"d"}) \ {p, q}}}
     : q \in (Names \cup {"d"}) \ {p}} : p \in Names}
DotValid(c) ==
  LET b1 == Range(BrNamesOf(c.ins[1])) b2 == Range(BrNamesOf(c.ins[2])) IN
  /\ b1 = b2 /\ b1 # {}
  /\ \A n \in NameSet(c.ins[1]) \cap NameSet(c.ins[2]) : (n \in b1) = (n \in b2)

---------------------------------------------------------------------------
(* get_at / update_at: target with bracketed leaves, one coordinate tensor with a trailing/leading [n], updates *)
TargetIns == {t \in SeqsUpTo({AxU(n) : n \in Names} \cup {AxB(n) : n \in {"h", "w"}} \cup {Fl(<<AxB("h"), AxB("w")>>)} \cup {Fl(<<AxU(x), AxB("h")>>) : x \in Names}, MaxDims)
                : /\ NoRepeat(SelectSeq(ExprNames(t), LAMBDA n : n # "h")) /\ CountIn("h", ExprNames(t)) <= 2
                  (* [h] [h]: two bracketed target axes may carry the same name - they are still two coordinates *)
                  /\ BrNamesOf(t) \in {<<"h">>, <<"h", "w">>, <<"w", "h">>, <<"h", "h">>}}
CoordLoop == {t \in SeqsUpTo({AxU(n) : n \in Names \cup {"d"}}, 2) : NoRepeat(ExprNames(t))}
GetAt(L) ==
  UNION {UNION {UNION {
     {[fam |-> "get_at", ins |-> <<tg, cl \o <<Nb(Len(BrNamesOf(tg)))>>>>, outs |-> <<[k \in DOMAIN p |-> AxU(p[k])]>>, L |-> L],
      [fam |-> "get_at", ins |-> <<tg, <<Nb(Len(BrNamesOf(tg)))>> \o cl>>, outs |-> <<[k \in DOMAIN p |-> AxU(p[k])]>>, L |-> L]}
     : p \in Perms(UnbrNames(tg) \cup NameSet(cl))} : cl \in CoordLoop} : tg \in TargetIns}

(* the update tensor may lack axes of the target / coordinates (its values are repeated along them) and may have an axis
   of its own ("c": every index of it addresses the same element - add/subtract accumulate, set keeps one competitor) *)
UpdLoop(tg, cl) == {t \in SeqsUpTo({AxU(n) : n \in UnbrNames(tg) \cup NameSet(cl) \cup {"c"}}, 3) : NoRepeat(ExprNames(t))}
UpdateAt(L) ==
  UNION {UNION {UNION {
     {[fam |-> "update_at", ins |-> <<tg, cl \o <<Nb(Len(BrNamesOf(tg)))>>, up>>, outs |-> <<tg>>, L |-> L],
      [fam |-> "update_at", ins |-> <<tg, <<Nb(Len(BrNamesOf(tg)))>> \o cl, up>>, outs |-> <<tg>>, L |-> L]}
     : up \in UpdLoop(tg, cl)} : cl \in CoordLoop} : tg \in TargetIns}

---------------------------------------------------------------------------
CaseSet(L) ==
  CASE Family = "id"          -> {c \in IdPlain(L) : IdValid(c)}
    [] Family = "iddiag"      -> IdDiag(L)
    [] Family = "idcat"       -> {c \in IdCat(L) \cup IdCat2(L) : IdValid(c)}
    [] Family = "elementwise" -> {c \in Elementwise(L) : ElValid(c)}
    [] Family = "reduce"      -> Reduce(L)
    [] Family = "preserve"    -> Preserve(L) \cup PreserveRep(L)
    [] Family = "argfind"     -> Argfind(L)
    [] Family = "dot"         -> {c \in Dot(L) : DotValid(c)} \cup Dot3(L)
    [] Family = "get_at"      -> GetAt(L)
    [] OTHER                  -> UpdateAt(L)

Init == case \in UNION {CaseSet(LFun(ls)) : ls \in Lens}
Next == FALSE /\ case' = case
Spec == Init /\ [][Next]_vars

(* C01 oracle sanity: the denotation is a function onto the output (each position written exactly once, all in range) *)
WellDefinedInv == WellDefined(case)

(* C14: the iterations of an indexed update partition the update tensor evenly: every update element is consumed by
   the same number of iterations (the product of the lengths of the loop axes it lacks), every iteration consumes exactly
   one update element and one full coordinate vector, and the target sub-tensor it addresses is a slice of the output *)
UpdIdx(c) == Len(c.ins)
C14_ContribPartition ==
  case.fam = "update_at" =>
    LET gs == Groups(case)
        used == [g \in DOMAIN gs |-> gs[g].ins[UpdIdx(case)]]
        n == NumEl(case.ins[UpdIdx(case)], case.L)
    IN /\ \A g \in DOMAIN gs : Len(used[g]) = 1 /\ Len(gs[g].ins[2]) = Len(BrShape(P1(case.ins[1], case.L)))
       /\ \A p \in 0..(n - 1) : Cardinality({g \in DOMAIN gs : used[g][1] = p}) * n = Len(gs)
       /\ \A g \in DOMAIN gs : gs[g].ins[1] = gs[g].outs[1]

(* export: description tokens, shapes, bracket shapes/names, groups *)
PartInfo(t, L) == [shape |-> Shape(t, L), brshape |-> BrShape(P1(t, L)), brnames |-> BrNames(P1(t, L)),
                   leaves |-> [i \in DOMAIN P1(t, L).lv |-> [n |-> P1(t, L).lv[i].n, br |-> P1(t, L).lv[i].br, len |-> P1(t, L).lv[i].len]]]
CaseJson(c) ==
  [fam |-> c.fam, desc |-> DescToks(c),
   intoks |-> [i \in DOMAIN c.ins |-> ExprToks(c.ins[i])], outtoks |-> [i \in DOMAIN c.outs |-> ExprToks(c.outs[i])],
   L |-> c.L,
   ins |-> [i \in DOMAIN c.ins |-> PartInfo(c.ins[i], c.L)],
   outs |-> [i \in DOMAIN c.outs |-> PartInfo(c.outs[i], c.L)],
   groups |-> Groups(c)]

(* sharding: a case belongs to shard (number of groups + total leaves) mod NShards *)
ShardOf(c) == (Len(Groups(c)) + SeqSum([i \in DOMAIN c.ins |-> LeafCount(c.ins[i])]) + SeqSum([i \in DOMAIN c.outs |-> 3 * LeafCount(c.outs[i])])) % NShards
Emit == ShardOf(case) # Shard \/ PrintT(<<"C", ToJson(CaseJson(case))>>)
=============================================================================
