----------------------------- MODULE Straightline -----------------------------
(***************************************************************************)
(* C17: the shape of generated code.  A record describes the code einx      *)
(* generated for one call under TWO axis-length assignments that agree on   *)
(* which axes have length 1:                                                *)
(*   stmts1, stmts2 : the statement kinds of the programs (module level and *)
(*                    nested function bodies, in order)                     *)
(*   nodes1, nodes2 : the set of all AST node kinds occurring anywhere      *)
(*   skel1, skel2   : the abstract syntax tree with every integer literal   *)
(*                    replaced by a placeholder (tuples keep their length)  *)
(*   calls1, calls2 : number of call expressions                            *)
(* StraightLine: only imports, function definitions, assignments,           *)
(* expression statements, assertions and returns; no loop, conditional,     *)
(* comprehension, lambda, try or with anywhere.                             *)
(* SizeGeneric: the two skeletons and call counts are identical.            *)
(***************************************************************************)
EXTENDS Naturals, Sequences, FiniteSets, TLC, Json, IOUtils, TLCExt
Traces == ndJsonDeserialize(IOEnv.TRACE_FILE)
Range(s) == {s[i] : i \in DOMAIN s}
VARIABLE tid
Init == tid \in 1..Len(Traces)
Next == FALSE /\ tid' = tid
Spec == Init /\ [][Next]_tid

AllowedStmts == {"Import", "ImportFrom", "FunctionDef", "Assign", "Expr", "Assert", "Return"}
Forbidden == {"For", "AsyncFor", "While", "If", "IfExp", "ListComp", "SetComp", "DictComp", "GeneratorExp", "Lambda", "Try", "With",
              "AsyncWith", "Match", "Yield", "YieldFrom", "Await", "ClassDef", "Global", "Nonlocal", "Delete", "Raise"}

StraightLine(t) ==
  /\ Range(t.stmts1) \subseteq AllowedStmts /\ Range(t.stmts2) \subseteq AllowedStmts
  /\ Range(t.nodes1) \cap Forbidden = {} /\ Range(t.nodes2) \cap Forbidden = {}
SizeGeneric(t) == t.skel1 = t.skel2 /\ t.calls1 = t.calls2 /\ t.stmts1 = t.stmts2

Chk == (StraightLine(Traces[tid]) \/ PrintT(<<"NOTSTRAIGHT", tid>>))
       /\ (SizeGeneric(Traces[tid]) \/ PrintT(<<"NOTGENERIC", tid>>))
=============================================================================
