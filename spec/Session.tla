------------------------------- MODULE Session -------------------------------
(***************************************************************************)
(* C06: histories of einx calls against the per-operation compile caches    *)
(* (frontend/api.py + util/lru_cache.py) and the with-backend stack.        *)
(*                                                                         *)
(* A call c of the alphabet Calls is abstracted by three tables that are    *)
(* MEASURED on the code under test before TLC runs (harness/drive_session): *)
(*   KeyOf[c]      the equivalence class of c's cache key (two calls are in *)
(*                 the same class iff the second one is a cache hit after   *)
(*                 the first one in a pristine interpreter),                *)
(*   ArtOf[c]      the class of the artefact a fresh compilation of c       *)
(*                 produces ("none" if c fails before anything is cached),  *)
(*   FreshOf[c]    the outcome class of c in a pristine interpreter.        *)
(* The cache maps key classes to the artefact stored by the first           *)
(* successful compilation; a hit runs the STORED artefact on c's arguments. *)
(* What a stored artefact of another call does with c's arguments is not    *)
(* known to the specification: it is the outcome "foreign", which is never  *)
(* equal to FreshOf[c].  CacheTransparent therefore holds iff no reachable  *)
(* hit uses an artefact of a different class - TLC explores every history.  *)
(***************************************************************************)
EXTENDS Naturals, Sequences, FiniteSets, TLC

CONSTANTS Calls, KeyOf, ArtOf, FreshOf, OpOf, MaxLen,
          Known      \* calls whose history dependence is a recorded finding (known_findings.json): excluded from the invariant so that TLC explores the rest

VARIABLES cache,    \* set of <<op, key class, artefact class>>
          hist      \* sequence of [c, hit, outcome]

vars == <<cache, hist>>

Init == cache = {} /\ hist = <<>>

Entry(c) == {e \in cache : e[1] = OpOf[c] /\ e[2] = KeyOf[c]}

Call(c) ==
  /\ Len(hist) < MaxLen
  /\ IF Entry(c) # {}
     THEN LET e == CHOOSE x \in Entry(c) : TRUE IN
          /\ hist' = Append(hist, [c |-> c, hit |-> TRUE, outcome |-> IF e[3] = ArtOf[c] THEN FreshOf[c] ELSE "foreign"])
          /\ UNCHANGED cache
     ELSE /\ hist' = Append(hist, [c |-> c, hit |-> FALSE, outcome |-> FreshOf[c]])
          /\ cache' = IF ArtOf[c] = "none" THEN cache ELSE cache \cup {<<OpOf[c], KeyOf[c], ArtOf[c]>>}     \* a call that raises while compiling stores nothing

Next == \E c \in Calls : Call(c)
Spec == Init /\ [][Next]_vars

(* C06: every call of every history has the outcome it has in a fresh interpreter *)
C06_CacheTransparent == \A i \in DOMAIN hist : hist[i].c \notin Known => hist[i].outcome = FreshOf[hist[i].c]

(* at most one entry per (operation, key class) *)
CacheFunctional == \A e1, e2 \in cache : (e1[1] = e2[1] /\ e1[2] = e2[2]) => e1 = e2

(* the core obligation TLC's exploration amounts to *)
KeyRespectsArtefact == \A c1, c2 \in Calls : (OpOf[c1] = OpOf[c2] /\ KeyOf[c1] = KeyOf[c2] /\ ArtOf[c1] # "none" /\ ArtOf[c2] # "none") => ArtOf[c1] = ArtOf[c2]
=============================================================================
