---------------------------- MODULE Trace_Registry ----------------------------
(* Validate (code -> spec): executions recorded from a real einx BackendRegistry
   are checked to be behaviours of Registry.tla.  One initial state per recorded
   trace (tid); every event must be an instance of the named specification action
   from the current specification state, with the logged result and the logged
   post-state; C11_DocSelect etc. are evaluated by TLC in every state reached.
   Accepted traces reach l = Len(events) + 1; the furthest position reached per
   trace is kept in TLC registers and checked by the POSTCONDITION. *)
EXTENDS Registry, Json, IOUtils, TLCExt

Traces == ndJsonDeserialize(IOEnv.TRACE_FILE)

VARIABLES tid, l
tvars == <<vars, tid, l>>

SeqToSet(s) == {s[i] : i \in DOMAIN s}
Ev == Traces[tid].events[l]

(* JSON objects become records; the configuration is a record backend -> record *)
CfgOf(t) == [b \in BackendIds |-> Traces[t].cfg[b]]

(* What C11 talks about besides the lookup results: the with-stack and the imported modules.  A recorded post-state
   that differs there is not a behaviour of the specification.  The registry's bookkeeping (initialised backends, lazy
   factories, seen modules, memo) is internal: a difference there alone is reported as DRIFT (the specification no
   longer mirrors the implementation's bookkeeping) but the trace goes on - the specification state is advanced by the
   specification's own actions, so results stay predicted from the specification's state. *)
PostObservable(e) ==
  /\ reg'.stack = e.post.stack
  /\ imported' = e.post.imported
PostInternal(e) ==
  /\ reg'.backends = e.post.backends
  /\ \A m \in Mods : reg'.lazy[m] = e.post.lazy[m]
  /\ reg'.seen = SeqToSet(e.post.seen)
  /\ Range(reg'.memo) = {<<p[1], p[2]>> : p \in SeqToSet(e.post.memo)}

ResIs(e, r) == e.res.k = r.k /\ (IF r.k = "set" THEN SeqToSet(e.res.v) = r.v ELSE e.res.v = r.v)

TraceInit ==
  /\ tid \in 1..Len(Traces)
  /\ l = 1
  /\ cfg = CfgOf(tid)
  /\ declared = <<>>
  /\ imported = <<"numpy">>
  /\ reg = EmptyReg
  /\ phase = "setup"
  /\ TLCSet(tid, 1)

Consume == l <= Len(Traces[tid].events) /\ l' = l + 1 /\ tid' = tid

TRegister  == Ev.a = "Register" /\ Register(Ev.x)
TStartUse  == Ev.a = "StartUse" /\ StartUse
TImport    == Ev.a = "Import" /\ ImportModule(Ev.x)
TGet       == Ev.a = "Get" /\ Get(ArgNone, Ev.tt)
                 /\ ResIs(Ev, ApiRes(cfg, DoGet(reg, cfg, imported, ArgNone, Ev.tt).res))
TGetName   == Ev.a = "GetName" /\ Get([k |-> "name", v |-> Ev.x], Ev.tt)
                 /\ ResIs(Ev, ApiRes(cfg, DoGet(reg, cfg, imported, [k |-> "name", v |-> Ev.x], Ev.tt).res))
TGetObj    == Ev.a = "GetObj" /\ Ev.x \in Registered(reg) /\ Get([k |-> "obj", v |-> Ev.x], Ev.tt)
                 /\ ResIs(Ev, ApiRes(cfg, DoGet(reg, cfg, imported, [k |-> "obj", v |-> Ev.x], Ev.tt).res))
TRegByName == Ev.a = "RegGetByName" /\ GetName(Ev.x) /\ ResIs(Ev, DoGetByName(reg, imported, Ev.x).res)
TRegByTens == Ev.a = "RegGetByTensors" /\ GetTensors(Ev.tt) /\ ResIs(Ev, DoGetByTensors(reg, cfg, imported, Ev.tt).res)
TEnter     == Ev.a = "Enter" /\ Enter(Ev.x)
TExit      == Ev.a = "Exit" /\ reg.stack # <<>> /\ reg.stack[Len(reg.stack)] = Ev.x /\ Exit

TraceNext ==
  /\ Consume
  /\ (TRegister \/ TStartUse \/ TImport \/ TGet \/ TGetName \/ TGetObj \/ TRegByName \/ TRegByTens \/ TEnter \/ TExit)
  /\ PostObservable(Ev)
  /\ (PostInternal(Ev) \/ PrintT(<<"DRIFT", tid, l>>))
  /\ TLCSet(tid, l + 1)

TraceSpec == TraceInit /\ [][TraceNext]_tvars

Rejected == {t \in 1..Len(Traces) : TLCGet(t) # Len(Traces[t].events) + 1}

TraceAccepted ==
  /\ \A t \in Rejected : PrintT(<<"REJECT", t, TLCGet(t), Traces[t].events[TLCGet(t)].a>>)
  /\ PrintT(<<"ACCEPTED", Len(Traces) - Cardinality(Rejected), "OF", Len(Traces)>>)
=============================================================================
