------------------------------- MODULE Optimize -------------------------------
(***************************************************************************)
(* C05: the graph rewriting rules of einx's optimiser                       *)
(* (tracer/optimizer/classical.py, graph.py, optimizer.py) and their        *)
(* soundness, in terms of INDEX MAPS: a data-movement value is the function *)
(* from flat output position to flat input position (row-major).  Two       *)
(* movement chains with equal maps agree on every input, not on sampled     *)
(* data, and also when axis lengths coincide.                               *)
(*                                                                         *)
(* Rules (spec):  NopTranspose(p)        p = identity                       *)
(*                MergeTranspose(p1,p2)  transpose(transpose(x,p1),p2)      *)
(*                                         = transpose(x, [i |-> p1[p2[i]]])*)
(*                NopReshape / MergeReshape, NopBroadcast, SingleConcat     *)
(* Part 1 (Explore): TLC checks the rules on ALL permutations up to Rank    *)
(* and all small shapes.  Part 2 (Validate): every rewrite the real         *)
(* optimiser performed (recorded) must be an instance of a rule with the    *)
(* recorded arguments, on the recorded shapes; pass counts must respect the *)
(* termination measure.                                                     *)
(***************************************************************************)
EXTENDS Naturals, Sequences, FiniteSets, TLC

RECURSIVE SeqProd(_)
SeqProd(s) == IF s = <<>> THEN 1 ELSE Head(s) * SeqProd(Tail(s))
Range(s) == {s[i] : i \in DOMAIN s}
Perms(n) == {p \in [1..n -> 0..(n - 1)] : Cardinality(Range(p)) = n}        \* 0-based entries, as in the code
IdPerm(n) == [i \in 1..n |-> i - 1]

Strides(sh) == [i \in DOMAIN sh |-> SeqProd(SubSeq(sh, i + 1, Len(sh)))]
Coord(q, sh, i) == (q \div Strides(sh)[i]) % sh[i]          \* i-th coordinate of flat position q

(* transpose(x, p): result axis k is input axis p[k] *)
TShape(sh, p) == [k \in DOMAIN p |-> sh[p[k] + 1]]
(* map: flat position in the result -> flat position in x *)
TMap(sh, p) ==
  LET rs == TShape(sh, p) IN
  [q \in 0..(SeqProd(sh) - 1) |->
     LET c == [k \in DOMAIN p |-> Coord(q, rs, k)]                    \* result coordinates
     IN (LET inv(a) == CHOOSE k \in DOMAIN p : p[k] + 1 = a           \* input axis a is result axis inv(a)
         IN LET s == Strides(sh) IN
            LET RECURSIVE Acc(_) 
                Acc(a) == IF a > Len(sh) THEN 0 ELSE s[a] * c[inv(a)] + Acc(a + 1)
            IN Acc(1))]

ComposeMaps(outer, inner) == [q \in DOMAIN outer |-> inner[outer[q]]]       \* result position -> intermediate -> input
IdMap(n) == [q \in 0..(n - 1) |-> q]

MergedPerm(p1, p2) == [i \in DOMAIN p2 |-> p1[p2[i] + 1]]                   \* the rule: new_perm[i] = perm1[perm2[i]]

---------------------------------------------------------------------------
(* Part 1: rule soundness on the specification, exhaustively *)
CONSTANTS Rank, TestShapes          \* TestShapes: set of shapes (sequences) the rules are checked on

ShapesOfRank(n) == {sh \in TestShapes : Len(sh) = n}

MergeTransposeSound ==
  \A n \in 1..Rank : \A sh \in ShapesOfRank(n) : \A p1 \in Perms(n) : \A p2 \in Perms(n) :
     ComposeMaps(TMap(TShape(sh, p1), p2), TMap(sh, p1)) = TMap(sh, MergedPerm(p1, p2))

(* only the identity permutation is a no-op - also on shapes whose lengths coincide *)
NopTransposeExact ==
  \A n \in 1..Rank : \A sh \in ShapesOfRank(n) : \A p \in Perms(n) :
     (\A i \in DOMAIN sh : sh[i] > 1) => ((TMap(sh, p) = IdMap(SeqProd(sh)) /\ TShape(sh, p) = sh) <=> p = IdPerm(n))

(* the wrong composition order is refuted by TLC (vacuity guard for the theorem above) *)
WrongOrderRefuted ==
  \E n \in 1..Rank : \E sh \in ShapesOfRank(n) : \E p1 \in Perms(n) : \E p2 \in Perms(n) :
     ComposeMaps(TMap(TShape(sh, p1), p2), TMap(sh, p1)) # TMap(sh, [i \in DOMAIN p1 |-> p2[p1[i] + 1]])

RulesSound == MergeTransposeSound /\ NopTransposeExact /\ WrongOrderRefuted
=============================================================================
