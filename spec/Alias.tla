-------------------------------- MODULE Alias --------------------------------
(***************************************************************************)
(* C09: which caller-owned buffers can a generated program write?           *)
(* A record [params, allowed, stmts]:                                       *)
(*   params  : the parameter names of the generated function (the caller's  *)
(*             tensors, roots of the alias graph)                           *)
(*   allowed : parameters the operation may update in place (the first      *)
(*             tensor of set_at / add_at / subtract_at, nothing otherwise)  *)
(*   stmts   : the straight-line program: [target, fn, args, kwout]         *)
(*             target = assigned name or "" ; fn = dotted callee or         *)
(*             "getitem"/"setitem"; args = positional argument names ("" if *)
(*             not a plain name); kwout = name passed as out= ("" if none)  *)
(* Abstract heap: every variable may alias a set of parameters.  Functions  *)
(* that MAY return views (reshape, transpose, broadcast_to, diagonal,       *)
(* asarray, squeeze, expand_dims, ravel, split, indexing, ...) propagate    *)
(* the union of their arguments' sets; everything else returns a fresh      *)
(* buffer.  np.put / ufunc.at / item assignment write their first operand;  *)
(* a ufunc called with out= or with more positional arguments than its      *)
(* arity writes that operand.  WritesOnlyTarget: written parameters are     *)
(* allowed ones - for every view/copy resolution, since "may alias" covers  *)
(* them all.                                                                *)
(***************************************************************************)
EXTENDS Naturals, Sequences, FiniteSets, TLC, Json, IOUtils, TLCExt
Recs == ndJsonDeserialize(IOEnv.TRACE_FILE)
Range(s) == {s[i] : i \in DOMAIN s}
VARIABLE tid
Init == tid \in 1..Len(Recs)
Next == FALSE /\ tid' = tid
Spec == Init /\ [][Next]_tid

ViewFns == {"np.reshape", "np.transpose", "np.broadcast_to", "np.diagonal", "np.asarray", "np.squeeze", "np.expand_dims", "np.ravel",
            "np.split", "np.swapaxes", "np.moveaxis", "np.flip", "np.atleast_1d", "getitem", "getattr", "tuple", "list", "np.array_split", "np.real", "np.imag"}
WriteFirst == {"np.put", "np.add.at", "np.subtract.at", "np.multiply.at", "np.put_along_axis", "np.place", "np.copyto", "np.putmask", "setitem", "np.fill_diagonal"}
Unary  == {"np.exp", "np.log", "np.negative", "np.logical_not", "np.sqrt", "np.abs", "np.sign", "np.floor", "np.ceil", "np.isnan"}
Binary == {"np.add", "np.subtract", "np.multiply", "np.true_divide", "np.floor_divide", "np.divide", "np.logical_and", "np.logical_or", "np.maximum",
           "np.minimum", "np.less", "np.less_equal", "np.greater", "np.greater_equal", "np.equal", "np.not_equal", "np.logaddexp", "np.power", "np.mod"}
Arity(fn) == IF fn \in Unary THEN 1 ELSE IF fn \in Binary THEN 2 ELSE 99

(* alias sets after executing the first k statements *)
RECURSIVE AliasAfter(_, _)
AliasOf(al, name) == IF name \in DOMAIN al THEN al[name] ELSE {}
Extend(al, n, S) == [x \in DOMAIN al \cup {n} |-> IF x = n THEN S ELSE al[x]]
AliasAfter(r, k) ==
  IF k = 0 THEN [p \in Range(r.params) |-> {p}]
  ELSE LET al == AliasAfter(r, k - 1) s == r.stmts[k] IN
       IF s.target = "" THEN al
       ELSE Extend(al, s.target, IF s.fn \in ViewFns THEN UNION {AliasOf(al, s.args[i]) : i \in DOMAIN s.args} ELSE {})

WrittenBy(r, k) ==
  LET al == AliasAfter(r, k - 1) s == r.stmts[k] IN
  (IF s.fn \in WriteFirst /\ Len(s.args) >= 1 THEN AliasOf(al, s.args[1]) ELSE {})
  \cup (IF s.kwout # "" THEN AliasOf(al, s.kwout) ELSE {})
  \cup (IF Len(s.args) > Arity(s.fn) THEN AliasOf(al, s.args[Arity(s.fn) + 1]) ELSE {})

Writes(r) == UNION {WrittenBy(r, k) : k \in DOMAIN r.stmts}
WritesOnlyTarget(r) == Writes(r) \subseteq Range(r.allowed)
Chk == WritesOnlyTarget(Recs[tid]) \/ PrintT(<<"WRITES", tid, Writes(Recs[tid])>>)
=============================================================================
