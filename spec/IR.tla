---------------------------------- MODULE IR ----------------------------------
(***************************************************************************)
(* The tracer's graph IR as a state machine, and the MEANING of a graph.   *)
(*                                                                         *)
(* C04 quantifies over "arbitrary well-formed graphs over the IR node       *)
(* types".  This module makes that space explicit: a behaviour is a run of  *)
(* the tracer API - every AddNode step is one call of                       *)
(* tracer.signature.python.{call, call_inplace, getattr, getitem, additem,  *)
(* setitem, add, assert_, function} or tracer.cast - followed by Finish,    *)
(* which fixes the output tuple of tracer.Graph.  TLC enumerates all such   *)
(* runs up to NNodes nodes (exhaustive) or samples longer ones (-simulate). *)
(*                                                                         *)
(* Values are references: 1..NIn are the graph inputs, NIn+i is the value   *)
(* produced by node i.  A node [k, a, b, d]:                                *)
(*   call, cali  f(a, b) -> fresh buffer   (function given as a constant /  *)
(*               imported from a module)                                    *)
(*   dim, op     a.shape[0], (a + b)       (immutable scalars; operators    *)
(*               are applied to scalars only, as in every graph einx traces)*)
(*   lam         (lambda z: f(z, a))(b)    (nested graph closing over a)    *)
(*   view, rev   a.T, a[::-1]              (aliases of a's buffer)          *)
(*   cut         a[0::-1]                  (alias; slice with literal 0)    *)
(*   gen         z() -> fresh buffer that does not depend on the inputs     *)
(*   cast, assert  transparent: the same value                             *)
(*   inpl        h(a, b) updates a's buffer in place; the result IS a       *)
(*               d # 0: value d is declared (tracer.depend_on) to be read   *)
(*               before the update                                          *)
(*   upd, set    a[0:n] += b, a[0:n] = b  (item updates; the result IS a)   *)
(*                                                                         *)
(* MEANING.  Memory is a map buffer -> TERM.  Executing the nodes in an     *)
(* order that respects operand and declared dependencies yields the terms   *)
(* of the outputs and of the input buffers.  A graph is WELL-FORMED (the    *)
(* tracer's contract) iff every such order yields the same terms: then      *)
(* "the value of the graph" is defined and is what generated code must      *)
(* compute.  Terms are purely functional - the replay interprets them with  *)
(* copies, never with mutation - so a generated program that reads a buffer *)
(* after it was updated, updates it twice, or clobbers a variable that is   *)
(* still needed computes a different term.                                  *)
(***************************************************************************)
EXTENDS Naturals, Sequences, FiniteSets, TLC, Json

CONSTANTS NIn, NNodes, Kinds, MaxOuts, Shard, NShards

Unary   == {"view", "rev", "cast", "assert", "dim", "cut"}
Fresh   == {"call", "cali", "op", "lam", "dim", "gen"}
Mut     == {"inpl", "upd", "set"}
Binary  == Fresh \cup Mut

VARIABLES nodes, outs, done
vars == <<nodes, outs, done>>

Range(s) == {s[i] : i \in DOMAIN s}
Node(k, a, b, d) == [k |-> k, a |-> a, b |-> b, d |-> d]
Refs(i) == 1..(NIn + i - 1)                     \* what node i may refer to
NodeRefs(i) == (NIn + 1)..(NIn + i - 1)         \* earlier nodes only

Init == nodes = <<>> /\ outs = <<>> /\ done = FALSE

(* two sorts of values, as in the graphs einx traces: tensors (mutable buffers: inputs, results of calls, their views) and
   scalars (immutable: a dimension read off a tensor, operator applications on scalars).  Operators are applied to scalars
   only and in-place nodes update tensors only. *)
(* A third sort "G": buffers that do not depend on the graph inputs (gen = a call without operands, and everything computed
   from such values only).  The generator emits them at module level, outside the function; they are shared by all
   invocations, so a well-formed graph never updates them in place. *)
RECURSIVE Sort(_, _)
Sort(ns, r) ==
  IF r <= NIn THEN "T"
  ELSE LET n == ns[r - NIn] IN
       CASE n.k \in {"dim", "op", "cut"}                -> "S"
         [] n.k = "gen"                                 -> "G"
         [] n.k \in {"view", "rev", "cast", "assert"}   -> Sort(ns, n.a)
         [] n.k \in {"call", "cali", "lam"}             -> IF Sort(ns, n.a) = "G" /\ Sort(ns, n.b) = "G" THEN "G" ELSE "T"
         [] OTHER                                       -> "T"
TRefs(i) == {r \in Refs(i) : Sort(nodes, r) = "T"}                 \* may be updated in place
BRefs(i) == {r \in Refs(i) : Sort(nodes, r) \in {"T", "G"}}        \* buffers
SRefs(i) == {r \in Refs(i) : Sort(nodes, r) = "S"}

AddNode ==
  /\ ~done /\ Len(nodes) < NNodes
  /\ LET i == Len(nodes) + 1 IN
     \E k \in Kinds :
       \/ /\ k = "gen"
          /\ nodes' = Append(nodes, Node(k, 0, 0, 0))
       \/ /\ k \in Unary
          /\ \E a \in BRefs(i) : nodes' = Append(nodes, Node(k, a, 0, 0))
       \/ /\ k = "op"
          /\ \E a \in SRefs(i), b \in SRefs(i) : nodes' = Append(nodes, Node(k, a, b, 0))
       \/ /\ k \in {"call", "cali", "lam"}
          /\ \E a \in BRefs(i), b \in Refs(i) : nodes' = Append(nodes, Node(k, a, b, 0))
       \/ /\ k \in {"upd", "set"}
          /\ \E a \in TRefs(i), b \in Refs(i) : nodes' = Append(nodes, Node(k, a, b, 0))
       \/ /\ k = "inpl"
          /\ \E a \in TRefs(i), b \in Refs(i), d \in {0} \cup NodeRefs(i) :
                /\ d \notin {a, b}
                /\ nodes' = Append(nodes, Node(k, a, b, d))
  /\ UNCHANGED <<outs, done>>

(* a node is used when it is an operand of a later node or an output; being a declared dependency is not a use *)
Used(ns) == UNION {{ns[i].a, ns[i].b} : i \in DOMAIN ns} \ {0}
Sinks(ns) == {NIn + i : i \in DOMAIN ns} \ Used(ns)

Finish ==
  /\ ~done /\ Len(nodes) >= 1
  /\ \E n \in 1..MaxOuts : \E o \in [1..n -> 1..(NIn + Len(nodes))] :
        /\ Sinks(nodes) \subseteq Range(o)            \* every node is used
        /\ outs' = o
  /\ done' = TRUE
  /\ UNCHANGED nodes

Next == AddNode \/ Finish
Spec == Init /\ [][Next]_vars

---------------------------------------------------------------------------
(* terms and memory *)
Tm(t, w, ch) == [t |-> t, w |-> w, ch |-> ch]
InTerm(i) == Tm("in", <<ToString(i)>>, <<>>)
NoVal == [b |-> 0, w |-> <<>>]

St0(ns) == [val |-> [r \in 1..(NIn + Len(ns)) |-> IF r <= NIn THEN [b |-> r, w |-> <<>>] ELSE NoVal],
            mem |-> [r \in 1..(NIn + Len(ns)) |-> IF r <= NIn THEN InTerm(r) ELSE Tm("undef", <<>>, <<>>)]]

Read(S, r) == IF S.val[r].w = <<>> THEN S.mem[S.val[r].b] ELSE Tm("view", S.val[r].w, <<S.mem[S.val[r].b]>>)

ExecNode(S, ns, i) ==
  LET n == ns[i]  r == NIn + i IN
  CASE n.k \in {"dim", "gen"} ->       \* a.shape[0] does not read the contents; gen() has no operands
         [val |-> [S.val EXCEPT ![r] = [b |-> r, w |-> <<>>]], mem |-> [S.mem EXCEPT ![r] = Tm(n.k, <<>>, <<>>)]]
    [] n.k \in Fresh ->
         [val |-> [S.val EXCEPT ![r] = [b |-> r, w |-> <<>>]],
          mem |-> [S.mem EXCEPT ![r] = Tm(n.k, <<>>, <<Read(S, n.a), Read(S, n.b)>>)]]
    [] n.k \in {"view", "rev", "cut"} ->
         [val |-> [S.val EXCEPT ![r] = [b |-> S.val[n.a].b, w |-> Append(S.val[n.a].w, n.k)]], mem |-> S.mem]
    [] n.k \in {"cast", "assert"} ->
         [val |-> [S.val EXCEPT ![r] = S.val[n.a]], mem |-> S.mem]
    [] OTHER ->      \* Mut
         [val |-> [S.val EXCEPT ![r] = S.val[n.a]],
          mem |-> [S.mem EXCEPT ![S.val[n.a].b] = Tm(n.k, S.val[n.a].w, <<S.mem[S.val[n.a].b], Read(S, n.b)>>)]]

RECURSIVE RunOrder(_, _, _)
RunOrder(S, ns, ord) == IF ord = <<>> THEN S ELSE RunOrder(ExecNode(S, ns, Head(ord)), ns, Tail(ord))

(* result of an execution: the terms of the outputs and the final contents of the input buffers *)
Result(ns, os, ord) ==
  LET S == RunOrder(St0(ns), ns, ord) IN
  [outs |-> [j \in DOMAIN os |-> Read(S, os[j])], inputs |-> [r \in 1..NIn |-> S.mem[r]]]

(* dependency edges: operands always; declared dependencies if withdeps *)
Before(ns, i, withdeps) ==
  {r - NIn : r \in ({ns[i].a, ns[i].b} \cup (IF withdeps THEN {ns[i].d} ELSE {})) \ (0..NIn)}
(* all topological orders, built by extension (only valid prefixes are extended) *)
RECURSIVE Extend(_, _, _, _)
Extend(ns, prefix, rest, withdeps) ==
  IF rest = {} THEN {prefix}
  ELSE UNION {Extend(ns, Append(prefix, i), rest \ {i}, withdeps) : i \in {j \in rest : Before(ns, j, withdeps) \subseteq Range(prefix)}}
Orders(ns, withdeps) == Extend(ns, <<>>, DOMAIN ns, withdeps)
IdOrder(ns) == [i \in 1..Len(ns) |-> i]

WellFormed(ns, os) == \A ord \in Orders(ns, TRUE) : Result(ns, os, ord) = Result(ns, os, IdOrder(ns))
(* the declared dependencies are what makes the value well defined *)
NeedsDeps(ns, os) == WellFormed(ns, os) /\ \E ord \in Orders(ns, FALSE) : Result(ns, os, ord) # Result(ns, os, IdOrder(ns))

---------------------------------------------------------------------------
(* properties of the specification itself (checked on every finished graph) *)

(* the construction order is one of the orders the meaning quantifies over *)
IdOrderValid == done => IdOrder(nodes) \in Orders(nodes, TRUE)
(* a graph without any in-place node is always well-formed (purely functional), and never needs declared dependencies *)
PureIsWellFormed == (done /\ \A i \in DOMAIN nodes : nodes[i].k \notin Mut) => (WellFormed(nodes, outs) /\ ~NeedsDeps(nodes, outs))
(* vacuity guards: both well-formed graphs that need their dependencies and ill-formed graphs exist in the space
   (refuted by TLC when used as invariants; run by the check as expected-violations) *)
NoGraphNeedsDeps == done => ~NeedsDeps(nodes, outs)
NoIllFormedGraph == done => WellFormed(nodes, outs)

---------------------------------------------------------------------------
(* export *)
NMut(ns) == Cardinality({i \in DOMAIN ns : ns[i].k \in Mut})
GraphJson ==
  [nodes |-> nodes, outs |-> outs, nin |-> NIn,
   wf |-> WellFormed(nodes, outs), needsdeps |-> NeedsDeps(nodes, outs),
   expect |-> Result(nodes, outs, IdOrder(nodes))]
ShardOf == (Len(nodes) + 3 * nodes[1].a + 5 * nodes[Len(nodes)].a + 7 * nodes[Len(nodes)].b + 11 * Len(outs) + 13 * outs[1]) % NShards
Emit == ~done \/ ShardOf # Shard \/ PrintT(<<"G", ToJson(GraphJson)>>)
=============================================================================
