----------------------------- MODULE Trace_Parse -----------------------------
(* Validate (code -> spec) for C12: outcomes recorded from the real parser
   (stage1.parse_op) are compared with Parse.  One state per recorded call.
   A record is [toks, ok, tree]; a mismatch is printed, never silently dropped. *)
EXTENDS Parse, Json, IOUtils, TLCExt
Traces == ndJsonDeserialize(IOEnv.TRACE_FILE)
VARIABLE tid
TInit == tid \in 1..Len(Traces)
TNext == FALSE /\ tid' = tid
TSpec == TInit /\ [][TNext]_tid

Conforms(t) ==
  LET r == Parse(Traces[t].toks) IN
  /\ r.ok = Traces[t].ok
  /\ r.ok => r.tree = Traces[t].tree

Chk == Conforms(tid) \/ PrintT(<<"MISMATCH", tid, Parse(Traces[tid].toks)>>)
=============================================================================
