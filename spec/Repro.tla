-------------------------------- MODULE Repro --------------------------------
(***************************************************************************)
(* C16: reproducibility.  Every observation is a record                     *)
(*     [cid, seed, rep, digest, gtext, gtext2]                              *)
(* of one execution of call `cid` in an interpreter started with            *)
(* PYTHONHASHSEED = seed, repetition number rep (1, 2, 3 within that        *)
(* process): digest is the outcome (exception class, or dtype/shape/bytes   *)
(* for exact families, rounded values otherwise), gtext / gtext2 the        *)
(* digests of two consecutive graph=True requests.                          *)
(* Reproducible: all observations of a call agree on the outcome, whatever  *)
(* the hash seed, the uuid draws and the repetition; GraphStable: the two   *)
(* graph=True texts obtained in one process are identical.                  *)
(* The set-iteration orders and uuid draws inside einx are the unobserved   *)
(* nondeterministic choices; the observations sample their resolutions.     *)
(***************************************************************************)
EXTENDS Naturals, Sequences, FiniteSets, TLC, Json, IOUtils, TLCExt
Obs == ndJsonDeserialize(IOEnv.TRACE_FILE)
Range(s) == {s[i] : i \in DOMAIN s}
VARIABLE cid
Cids == {Obs[i].cid : i \in DOMAIN Obs}
Init == cid \in Cids
Next == FALSE /\ cid' = cid
Spec == Init /\ [][Next]_cid

Of(c) == {Obs[i] : i \in {j \in DOMAIN Obs : Obs[j].cid = c}}
Reproducible(c) == \A o1, o2 \in Of(c) : o1.digest = o2.digest
GraphStable(c)  == \A o \in Of(c) : o.gtext = o.gtext2
Chk == (Reproducible(cid) \/ PrintT(<<"IRREPRODUCIBLE", cid>>)) /\ (GraphStable(cid) \/ PrintT(<<"GRAPHUNSTABLE", cid>>))
=============================================================================
