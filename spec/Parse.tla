-------------------------------- MODULE Parse --------------------------------
(***************************************************************************)
(* Token-level specification of einx's expression parser                    *)
(* (einx/_src/namedtensor/stage1/parse.py:parse_op and the normal-form      *)
(* constructors of stage1/tree.py).                                         *)
(*                                                                         *)
(* A description string is the concatenation of a token sequence over       *)
(*   names, numbers, junk, ( ) [ ] ... -> , + and the space.                *)
(* No two tokens of the alphanumeric class are adjacent (they would lex as  *)
(* one chunk), so the lexer's image of the rendered string is the sequence. *)
(*                                                                         *)
(* Parse is a TOTAL function: token sequence -> [ok, tree] | [ok=FALSE,err] *)
(* There is no third outcome: that is clause one of property C12.           *)
(* Trees are records  axis/list/flat/br/ell/cat/args/op  in the normal form *)
(* that the code's X.create constructors establish.                         *)
(***************************************************************************)
EXTENDS Naturals, Integers, Sequences, FiniteSets, TLC

CONSTANTS NameToks, NumToks, JunkToks

Lits      == {"(", ")", "[", "]", "...", "->", ",", "+", " "}
AlnumCls  == NameToks \cup NumToks \cup JunkToks
Alphabet  == AlnumCls \cup Lits
Anon      == "_anon"          \* Ellipsis.anonymous_variable_name
Unnamed   == "#"              \* unnamed.<uuid>: fresh per occurrence

NumValue(t) == CASE t = "0" -> 0 [] t = "1" -> 1 [] t = "2" -> 2 [] t = "3" -> 3 [] t = "10" -> 10 [] OTHER -> 7
NumTok(v)   == CASE v = 0 -> "0" [] v = 1 -> "1" [] v = 2 -> "2" [] v = 3 -> "3" [] v = 10 -> "10" [] OTHER -> "7"

(* the image of the lexer: no two alphanumeric-class tokens adjacent; "." junk never touches "..." *)
WellLexed(toks) ==
  \A i \in 1..(Len(toks) - 1) :
      /\ ~(toks[i] \in AlnumCls /\ toks[i + 1] \in AlnumCls)
      /\ ~(toks[i] \in JunkToks /\ toks[i + 1] = "...")
      /\ ~(toks[i] = "..." /\ toks[i + 1] \in JunkToks)

---------------------------------------------------------------------------
(* Trees *)
Axis(n, v)  == [k |-> "axis", name |-> n, val |-> v]         \* val = -1 : no value
ListN(ch)   == [k |-> "list", ch |-> ch]
Flat(x)     == [k |-> "flat", in |-> x]
Br(x)       == [k |-> "br", in |-> x]
Ell(x)      == [k |-> "ell", in |-> x]
Cat(ch)     == [k |-> "cat", ch |-> ch]
ArgsN(ch)   == [k |-> "args", ch |-> ch]
OpN(ch)     == [k |-> "op", ch |-> ch]
Error(c)    == [k |-> "error", err |-> c]
IsErr(x)    == x.k = "error"
Empty       == ListN(<<>>)

HasErr(s)   == \E i \in DOMAIN s : IsErr(s[i])
FirstErr(s) == s[CHOOSE i \in DOMAIN s : IsErr(s[i]) /\ \A j \in DOMAIN s : IsErr(s[j]) => i <= j]

RECURSIVE SumSeq(_)
SumSeq(s) == IF s = <<>> THEN 0 ELSE Head(s) + SumSeq(Tail(s))

(* ndim: -1 stands for None (unknown rank) *)
RECURSIVE Ndim(_)
Ndim(x) ==
  CASE x.k \in {"axis", "flat", "cat"} -> 1
    [] x.k = "br"   -> Ndim(x.in)
    [] x.k = "ell"  -> IF Ndim(x.in) = 0 THEN 0 ELSE -1
    [] x.k = "list" -> LET ds == [i \in DOMAIN x.ch |-> Ndim(x.ch[i])]
                       IN IF \E i \in DOMAIN ds : ds[i] = -1 THEN -1 ELSE SumSeq(ds)
    [] OTHER        -> -1

(* normal-form constructors (X.create) *)
RECURSIVE FlattenLists(_)
FlattenLists(s) ==
  IF s = <<>> THEN <<>>
  ELSE IF Head(s).k = "list" THEN FlattenLists(Head(s).ch) \o FlattenLists(Tail(s))
  ELSE <<Head(s)>> \o FlattenLists(Tail(s))

ListCreate(ch) == LET f == FlattenLists(ch) IN IF Len(f) = 1 THEN f[1] ELSE ListN(f)
FlatCreate(x)  == IF x.k = "flat" THEN x ELSE Flat(x)
BrCreate(x)    == IF x.k = "br" THEN x ELSE IF Ndim(x) = 0 THEN Empty ELSE Br(x)
EllCreate(x)   == IF Ndim(x) = 0 THEN Empty ELSE Ell(x)
CatCreate(ch)  == IF Len(ch) = 1 THEN ch[1] ELSE Cat(ch)

---------------------------------------------------------------------------
(* 1. duplicate whitespace *)
RECURSIVE DedupSpaces(_)
DedupSpaces(t) ==
  IF Len(t) <= 1 THEN t
  ELSE IF t[1] = " " /\ t[2] = " " THEN DedupSpaces(Tail(t))
  ELSE <<t[1]>> \o DedupSpaces(Tail(t))

(* 2. delimiter nesting: items are [t |-> "tok", s] or [t |-> "grp", open, items] *)
Tok(s)       == [t |-> "tok", s |-> s]
Grp(o, it)   == [t |-> "grp", open |-> o, items |-> it]
Close(o)     == IF o = "(" THEN ")" ELSE "]"

RECURSIVE NestSeq(_, _, _)
NestSeq(toks, i, open) ==
  IF i > Len(toks)
  THEN IF open = "" THEN [k |-> "ok", items |-> <<>>, j |-> i] ELSE Error("unclosed")
  ELSE LET t == toks[i] IN
    IF t \in {"(", "["} THEN
      LET g == NestSeq(toks, i + 1, t) IN
      IF IsErr(g) THEN g
      ELSE LET rest == NestSeq(toks, g.j, open) IN
           IF IsErr(rest) THEN rest
           ELSE [k |-> "ok", items |-> <<Grp(t, g.items)>> \o rest.items, j |-> rest.j]
    ELSE IF t \in {")", "]"} THEN
      IF open = "" \/ Close(open) # t THEN Error("unopened")
      ELSE [k |-> "ok", items |-> <<>>, j |-> i + 1]
    ELSE LET rest == NestSeq(toks, i + 1, open) IN
         IF IsErr(rest) THEN rest
         ELSE [k |-> "ok", items |-> <<Tok(t)>> \o rest.items, j |-> rest.j]

(* the code scans left to right and reports the first unopened delimiter before any unclosed one;
   both are syntax errors, only the verdict matters here *)

---------------------------------------------------------------------------
(* 3. tokens -> expressions *)
IsTok(it, s) == it.t = "tok" /\ it.s = s

RECURSIVE StripL(_)
StripL(s) == IF s # <<>> /\ IsTok(Head(s), " ") THEN StripL(Tail(s)) ELSE s
RECURSIVE StripR(_)
StripR(s) == IF s # <<>> /\ IsTok(s[Len(s)], " ") THEN StripR(SubSeq(s, 1, Len(s) - 1)) ELSE s

(* split a sequence of items at top-level occurrences of token s *)
RECURSIVE SplitAt(_, _, _)
SplitAt(items, s, cur) ==
  IF items = <<>> THEN <<cur>>
  ELSE IF IsTok(Head(items), s) THEN <<cur>> \o SplitAt(Tail(items), s, <<>>)
  ELSE SplitAt(Tail(items), s, Append(cur, Head(items)))

NaryOps == <<"->", ",", "+", " ">>     \* precedence order of parse.py:_nary_ops

RECURSIVE ParseItems(_, _)
ParseGroup(g) ==
  LET inner == ParseItems(g.items, g.open = "(") IN
  IF IsErr(inner) THEN inner
  ELSE IF g.open = "(" THEN (IF inner.k = "cat" THEN inner ELSE FlatCreate(inner))
  ELSE BrCreate(inner)

ParseItems(items0, comp) ==
  LET items == StripR(StripL(items0)) IN
  IF items = <<>> THEN Empty
  ELSE IF Len(items) = 1 /\ items[1].t = "grp" THEN ParseGroup(items[1])
  ELSE
    LET present == {i \in 1..Len(NaryOps) : \E j \in DOMAIN items : IsTok(items[j], NaryOps[i])} IN
    IF present # {} THEN
      LET opi  == CHOOSE i \in present : \A j \in present : i <= j
          op   == NaryOps[opi]
          raw  == SplitAt(items, op, <<>>)
          opnd == IF op = " " THEN SelectSeq(raw, LAMBDA o : o # <<>>) ELSE raw
          ch   == [i \in DOMAIN opnd |-> ParseItems(opnd[i], FALSE)]
      IN IF HasErr(ch) THEN FirstErr(ch)
         ELSE IF op = " "  THEN ListCreate(ch)
         ELSE IF op = "->" THEN OpN(ch)
         ELSE IF op = ","  THEN ArgsN(ch)
         ELSE (* "+" *)
              IF \E i \in DOMAIN ch : ch[i].k \notin {"axis", "flat"} THEN Error("concat-operand")
              ELSE IF ~comp THEN Error("concat-needs-parentheses")
              ELSE CatCreate(ch)
    ELSE IF IsTok(items[Len(items)], "...") /\ Len(items) <= 2 THEN
      IF Len(items) = 1 THEN EllCreate(Axis(Anon, -1))
      ELSE LET o == ParseItems(<<items[1]>>, FALSE) IN IF IsErr(o) THEN o ELSE EllCreate(o)
    ELSE IF Len(items) = 1 THEN
      (IF items[1].s \in NumToks THEN Axis(Unnamed, NumValue(items[1].s))
       ELSE IF items[1].s \in NameToks THEN Axis(items[1].s, -1)
       ELSE Error("invalid-token"))
    ELSE Error("missing-whitespace")

---------------------------------------------------------------------------
(* 4. move '->' to the top *)
DistinctLens(ops) == {Len(ops[i].ch) : i \in DOMAIN ops} \ {1}
Pick(ops, idx)    == [i \in DOMAIN ops |-> IF Len(ops[i].ch) = 1 THEN ops[i].ch[1] ELSE ops[i].ch[idx]]
Create(kind, ch)  == CASE kind = "list" -> ListCreate(ch) [] kind = "cat" -> CatCreate(ch) [] OTHER -> ArgsN(ch)

RECURSIVE ConcatAll(_)
ConcatAll(ss) == IF ss = <<>> THEN <<>> ELSE Head(ss) \o ConcatAll(Tail(ss))

RECURSIVE MoveOp(_)
MoveOp(x) ==
  CASE x.k = "axis" -> OpN(<<x>>)
    [] x.k \in {"flat", "br", "ell"} ->
         LET o == MoveOp(x.in) IN
         IF IsErr(o) THEN o
         ELSE OpN([i \in DOMAIN o.ch |-> CASE x.k = "flat" -> FlatCreate(o.ch[i])
                                           [] x.k = "br"   -> BrCreate(o.ch[i])
                                           [] OTHER        -> EllCreate(o.ch[i])])
    [] x.k \in {"list", "cat", "args"} ->
         LET ops == [i \in DOMAIN x.ch |-> MoveOp(x.ch[i])] IN
         IF HasErr(ops) THEN FirstErr(ops)
         ELSE IF Cardinality(DistinctLens(ops)) > 1 THEN Error("arrows-at-different-levels")
         ELSE LET num == IF DistinctLens(ops) = {} THEN 1 ELSE CHOOSE n \in DistinctLens(ops) : TRUE
              IN OpN([idx \in 1..num |-> Create(x.k, Pick(ops, idx))])
    [] OTHER (* op *) ->
         LET ops == [i \in DOMAIN x.ch |-> MoveOp(x.ch[i])] IN
         IF HasErr(ops) THEN FirstErr(ops)
         ELSE OpN(ConcatAll([i \in DOMAIN ops |-> ops[i].ch]))

(* 5. move ',' to the top of each side *)
RECURSIVE MoveArgs(_)
MoveArgs(x) ==
  CASE x.k = "axis" -> ArgsN(<<x>>)
    [] x.k \in {"flat", "br", "ell"} ->
         LET o == MoveArgs(x.in) IN
         IF IsErr(o) THEN o
         ELSE ArgsN([i \in DOMAIN o.ch |-> CASE x.k = "flat" -> FlatCreate(o.ch[i])
                                             [] x.k = "br"   -> BrCreate(o.ch[i])
                                             [] OTHER        -> EllCreate(o.ch[i])])
    [] x.k \in {"list", "cat"} ->
         LET as == [i \in DOMAIN x.ch |-> MoveArgs(x.ch[i])] IN
         IF HasErr(as) THEN FirstErr(as)
         ELSE IF Cardinality(DistinctLens(as)) > 1 THEN Error("commas-at-different-levels")
         ELSE LET num == IF DistinctLens(as) = {} THEN 1 ELSE CHOOSE n \in DistinctLens(as) : TRUE
              IN ArgsN([idx \in 1..num |-> Create(x.k, Pick(as, idx))])
    [] OTHER (* args *) ->
         LET as == [i \in DOMAIN x.ch |-> MoveArgs(x.ch[i])] IN
         IF HasErr(as) THEN FirstErr(as)
         ELSE ArgsN(ConcatAll([i \in DOMAIN as |-> as[i].ch]))

(* 6. brackets inside brackets are dropped *)
RECURSIVE DropBr(_, _)
DropBr(x, inbr) ==
  CASE x.k = "axis" -> x
    [] x.k = "flat" -> FlatCreate(DropBr(x.in, inbr))
    [] x.k = "list" -> ListCreate([i \in DOMAIN x.ch |-> DropBr(x.ch[i], inbr)])
    [] x.k = "cat"  -> CatCreate([i \in DOMAIN x.ch |-> DropBr(x.ch[i], inbr)])
    [] x.k = "br"   -> IF inbr THEN DropBr(x.in, TRUE) ELSE BrCreate(DropBr(x.in, TRUE))
    [] x.k = "ell"  -> EllCreate(DropBr(x.in, inbr))
    [] x.k = "op"   -> OpN([i \in DOMAIN x.ch |-> DropBr(x.ch[i], inbr)])
    [] OTHER        -> ArgsN([i \in DOMAIN x.ch |-> DropBr(x.ch[i], inbr)])

(* 7. checks: names used with and without brackets *)
RECURSIVE NamesIn(_, _, _)
NamesIn(x, inbr, want) ==     \* names of axes occurring with bracket status `want`
  CASE x.k = "axis" -> IF inbr = want /\ x.name # Unnamed THEN {x.name} ELSE {}
    [] x.k \in {"flat", "ell"} -> NamesIn(x.in, inbr, want)
    [] x.k = "br" -> NamesIn(x.in, TRUE, want)
    [] OTHER -> UNION {NamesIn(x.ch[i], inbr, want) : i \in DOMAIN x.ch}

Result(t) == [ok |-> TRUE, tree |-> t]
Fail(c)   == [ok |-> FALSE, err |-> c]

Parse(toks) ==
  LET n == NestSeq(DedupSpaces(toks), 1, "") IN
  IF \E i \in DOMAIN toks : toks[i] \in JunkToks THEN Fail("invalid-token")     \* the lexer rejects first
  ELSE IF IsErr(n) THEN Fail(n.err)
  ELSE LET e == ParseItems(n.items, FALSE) IN
  IF IsErr(e) THEN Fail(e.err)
  ELSE LET o == MoveOp(e) IN
  IF IsErr(o) THEN Fail(o.err)
  ELSE LET as == [i \in DOMAIN o.ch |-> MoveArgs(o.ch[i])] IN
  IF HasErr(as) THEN Fail(FirstErr(as).err)
  ELSE LET d == DropBr(OpN(as), FALSE) IN
  IF Len(d.ch) > 2 THEN Fail("more-than-one-arrow")
  ELSE IF NamesIn(d, FALSE, TRUE) \cap NamesIn(d, FALSE, FALSE) # {} THEN Fail("inconsistent-brackets")
  ELSE Result(d)

---------------------------------------------------------------------------
(* Printing a tree back in the notation (tree.py:__str__), as a token sequence *)
RECURSIVE Join(_, _)
Join(ss, sep) == IF ss = <<>> THEN <<>> ELSE IF Len(ss) = 1 THEN ss[1] ELSE ss[1] \o sep \o Join(Tail(ss), sep)

RECURSIVE PrintE(_)
PrintE(x) ==
  CASE x.k = "axis" -> IF x.val = -1 THEN <<x.name>> ELSE <<NumTok(x.val)>>
    [] x.k = "list" -> Join([i \in DOMAIN x.ch |-> PrintE(x.ch[i])], <<" ">>)
    [] x.k = "flat" -> <<"(">> \o PrintE(x.in) \o <<")">>
    [] x.k = "br"   -> <<"[">> \o PrintE(x.in) \o <<"]">>
    [] x.k = "ell"  -> IF x.in.k = "axis" /\ x.in.name = Anon THEN <<"...">>
                       ELSE IF x.in.k = "list" /\ Len(x.in.ch) # 1 THEN <<"{">> \o PrintE(x.in) \o <<"}", "...">>
                       ELSE PrintE(x.in) \o <<"...">>
    [] x.k = "cat"  -> <<"(">> \o Join([i \in DOMAIN x.ch |-> PrintE(x.ch[i])], <<" ", "+", " ">>) \o <<")">>
    [] x.k = "args" -> Join([i \in DOMAIN x.ch |-> PrintE(x.ch[i])], <<",", " ">>)
    [] OTHER        -> Join([i \in DOMAIN x.ch |-> PrintE(x.ch[i])], <<" ", "->", " ">>)

(* the printed form is in the notation iff it uses only tokens of the notation *)
Printable(x) == \A i \in DOMAIN PrintE(x) : PrintE(x)[i] \in Alphabet \cup {Anon}

---------------------------------------------------------------------------
(* Redundant spaces: an extra space where one already separates tokens, or next to
   "->" "," "+" "(" ")" "[" "]" , or at either end.  Never between an operand and its "..." *)
SpaceOK(toks, i) ==      \* may a space be inserted before position i (1..Len+1)?
  LET l == IF i > 1 THEN toks[i - 1] ELSE "^"
      r == IF i <= Len(toks) THEN toks[i] ELSE "$" IN
  \/ l = "^" \/ r = "$"
  \/ l = " " \/ r = " "
  \/ l \in {"->", ",", "+", "(", "["}
  \/ r \in {"->", ",", "+", ")", "]"}
  \/ (l \in {")", "]"} /\ r \in {")", "]"})

Insert(toks, i) == SubSeq(toks, 1, i - 1) \o <<" ">> \o SubSeq(toks, i, Len(toks))
SpaceVariants(toks) == {Insert(toks, i) : i \in {j \in 1..(Len(toks) + 1) : SpaceOK(toks, j)}}

=============================================================================
