------------------------------- MODULE Codegen -------------------------------
(***************************************************************************)
(* C04: translation validation of einx's Python code generator.            *)
(* A record [graph, prog]:                                                  *)
(*  graph : the traced (optimised) graph unfolded into a TERM               *)
(*          [out, asserts, effects, nin]; terms are uniform records         *)
(*          [t, s, ch]: in(i), call(fn, args, kwargs), inplace(xs, fn, ..), *)
(*          attr, item, update, import, op, builtin, const, literals;       *)
(*          asserts / casts are transparent, their conditions are collected *)
(*  prog  : the emitted source as statements over expression terms          *)
(*          [consts, params, stmts, ret]                                    *)
(* Exec is an abstract machine: env maps variable names to TERMS.  Running  *)
(* the statements in order and resolving the return expression must yield   *)
(* exactly the graph's output term - which fails as soon as a re-used       *)
(* variable name overwrites a value that is still needed, an in-place update*)
(* is ordered before a read it must follow, or a constant label denotes the *)
(* wrong object.  Every effect (call, in-place call, item update) must      *)
(* occur once: the number of call / update expressions in the program       *)
(* equals the number of such nodes of the graph.  The assertions executed   *)
(* are exactly the graph's.                                                 *)
(***************************************************************************)
EXTENDS Naturals, Sequences, FiniteSets, TLC, Json, IOUtils, TLCExt
Recs == ndJsonDeserialize(IOEnv.TRACE_FILE)
Range(s) == {s[i] : i \in DOMAIN s}
VARIABLE tid
Init == tid \in 1..Len(Recs)
Next == FALSE /\ tid' = tid
Spec == Init /\ [][Next]_tid

Tm(t, s, ch) == [t |-> t, s |-> s, ch |-> ch]

(* environment: sequence of <<name, term>>, latest binding wins *)
Bound(env, n) == \E i \in DOMAIN env : env[i][1] = n
Lookup(env, n) == env[CHOOSE i \in DOMAIN env : env[i][1] = n /\ \A j \in DOMAIN env : env[j][1] = n => j <= i][2]

RECURSIVE Resolve(_, _)
Resolve(e, env) ==
  IF e.t = "name" THEN (IF Bound(env, e.s) THEN Lookup(env, e.s) ELSE Tm("builtin", e.s, <<>>))
  ELSE [e EXCEPT !.ch = [i \in DOMAIN e.ch |-> Resolve(e.ch[i], env)]]

RECURSIVE CountCalls(_)
RECURSIVE SumSeq(_)
SumSeq(s) == IF s = <<>> THEN 0 ELSE Head(s) + SumSeq(Tail(s))
CountCalls(e) == (IF e.t \in {"call", "update"} THEN 1 ELSE 0) + SumSeq([i \in DOMAIN e.ch |-> CountCalls(e.ch[i])])

InitEnv(p) == [i \in 1..Len(p.params) |-> <<p.params[i], Tm("in", ToString(i - 1), <<>>)>>]
              \o [i \in 1..Len(p.consts) |-> <<p.consts[i][1], Tm("const", p.consts[i][2], <<>>)>>]

(* one statement: returns [env, asserts] *)
StepStmt(st, s) ==
  LET e == Resolve(s.e, st.env) IN
  CASE s.k \in {"import"}  -> [env |-> Append(st.env, <<s.target, s.e>>), asserts |-> st.asserts]
    [] s.k = "assign"      -> [env |-> Append(st.env, <<s.target, e>>), asserts |-> st.asserts]
    [] s.k = "assert"      -> [env |-> st.env, asserts |-> st.asserts \cup {e}]
    [] s.k = "update"      -> [env |-> Append(st.env, <<s.target, e>>), asserts |-> st.asserts]
    [] s.k = "expr"        ->
         (* an expression statement is an in-place call: it updates the variable passed as its first argument *)
         IF s.e.t = "call" /\ Len(s.e.ch[2].ch) >= 1 /\ s.e.ch[2].ch[1].t = "name"
         THEN [env |-> Append(st.env, <<s.e.ch[2].ch[1].s, Tm("inplace", "", <<e.ch[2].ch[1], e.ch[1], e.ch[2], e.ch[3]>>)>>), asserts |-> st.asserts]
         ELSE st
    [] OTHER -> st

RECURSIVE Run(_, _, _)
Run(st, stmts, i) == IF i > Len(stmts) THEN st ELSE Run(StepStmt(st, stmts[i]), stmts, i + 1)

Exec(p) == LET st == Run([env |-> InitEnv(p), asserts |-> {}], p.stmts, 1) IN [ret |-> Resolve(p.ret, st.env), asserts |-> st.asserts]

ProgCalls(p) == SumSeq([i \in DOMAIN p.stmts |-> IF p.stmts[i].k = "import" THEN 0 ELSE CountCalls(p.stmts[i].e)]) + CountCalls(p.ret)

C04_SameValue(r)   == Exec(r.prog).ret = r.graph.out
C04_SameAsserts(r) == Exec(r.prog).asserts = Range(r.graph.asserts)
C04_EffectsOnce(r) == ProgCalls(r.prog) = r.graph.effects

Chk == /\ (C04_SameValue(Recs[tid]) \/ PrintT(<<"VALUE", tid>>))
       /\ (C04_SameAsserts(Recs[tid]) \/ PrintT(<<"ASSERTS", tid>>))
       /\ (C04_EffectsOnce(Recs[tid]) \/ PrintT(<<"EFFECTS", tid>>))
=============================================================================
