------------------------------ MODULE Shorthand ------------------------------
(***************************************************************************)
(* C07: the documented notational conveniences as rewrite rules.            *)
(* For a long-form case c (explicit output, one bracket per axis) every     *)
(* rule that applies yields a SHORT description (token sequence + keyword   *)
(* arguments) that the documentation equates with a LONG one.  TLC          *)
(* enumerates all instances over the corpus, checks with Parse.tla that     *)
(* both members are syntactically valid and - for the purely syntactic      *)
(* rules (redundant spaces, nested '->' / ',' distribution) - that they     *)
(* parse to the same tree, and exports the pairs; the real einx must give   *)
(* the same outcome for both members of every pair.                         *)
(***************************************************************************)
EXTENDS Cases

P == INSTANCE Parse WITH NameToks <- Range(NameOrder) \cup {"e", "a0", "a1", "a2", "c0", "c1", "c2"}, NumToks <- {"1", "2", "3"}, JunkToks <- {"$"}

LenTok(n) == CASE n = 1 -> "1" [] n = 2 -> "2" [] OTHER -> "3"

InsToks(c)  == JoinT([i \in DOMAIN c.ins |-> ExprToks(c.ins[i])], <<",", " ">>)
OutsToks(c) == JoinT([i \in DOMAIN c.outs |-> ExprToks(c.outs[i])], <<",", " ">>)
Arrow == <<" ", "->", " ">>

Pair(kind, short, long, kwshort, opmap) == [kind |-> kind, short |-> short, long |-> long, kw |-> kwshort, opmap |-> opmap]
NoKw == [keepdims |-> FALSE]

(* --- brackets removed from every dimension --- *)
RECURSIVE UnbrDim(_)
UnbrDim(d) == CASE d.k = "ax" -> [d EXCEPT !.br = FALSE] [] d.k \in {"one", "nb"} -> d
                [] OTHER -> [d EXCEPT !.ch = [i \in DOMAIN d.ch |-> UnbrDim(d.ch[i])]]
UnbrExpr(t) == [i \in DOMAIN t |-> UnbrDim(t[i])]

(* the expression with its bracketed leaves removed (stage1.remove(Brackets)) ; only for flat-free expressions *)
IsPlainAx(d) == d.k = "ax"
RemoveBr(t) == SelectSeq(t, LAMBDA d : ~(d.k = "ax" /\ d.br))
AllTopAx(t) == \A i \in DOMAIN t : t[i].k \in {"ax", "one"}

(* --- rule: omitted output --- *)
DefaultOut(c) ==
  CASE c.fam = "reduce" -> IF AllTopAx(c.ins[1]) THEN <<RemoveBr(c.ins[1])>> ELSE <<>>
    [] c.fam \in {"preserve", "id"} -> IF Len(c.ins) = 1 THEN <<c.ins[1]>> ELSE <<>>
    [] c.fam = "update_at" -> <<c.ins[1]>>
    [] c.fam = "elementwise" ->
         LET sup == {i1 \in DOMAIN c.ins : \A j1 \in DOMAIN c.ins : NameSet(c.ins[j1]) \subseteq NameSet(c.ins[i1])}
         IN IF Cardinality(sup) = 1 THEN <<c.ins[CHOOSE i2 \in sup : TRUE]>> ELSE <<>>
    [] OTHER -> <<>>
OmitOutput(c) ==
  IF DefaultOut(c) # <<>> /\ DefaultOut(c) = c.outs
  THEN {Pair("omitted_output", InsToks(c), DescToks(c), NoKw, "same")} ELSE {}

(* the default output of an element-wise operation exists only "if this choice is unique": inputs none of which contains
   the axis names of all others, or several different ones that do, have no default - the short form has to be rejected *)
SupExprs(c) == {c.ins[i1] : i1 \in {i2 \in DOMAIN c.ins : \A j1 \in DOMAIN c.ins : NameSet(c.ins[j1]) \subseteq NameSet(c.ins[i2])}}
OmitOutputNotUnique(c) ==
  IF c.fam = "elementwise" /\ Len(c.ins) >= 2 /\ Cardinality(SupExprs(c)) # 1      \* none, or several DIFFERENT candidate expressions
  THEN {Pair("omitted_output_not_unique", InsToks(c), InsToks(c), NoKw, "reject")} ELSE {}

(* --- rule: un-bracketed reduction / dot --- *)
Unbracketed(c) ==
  IF c.fam \in {"reduce", "dot"}
     /\ (\A i0 \in DOMAIN c.ins : NoRepeat(ExprNames(c.ins[i0])))
     /\ UNION {Range(BrNamesOf(c.ins[i])) : i \in DOMAIN c.ins} = (UNION {NameSet(c.ins[i]) : i \in DOMAIN c.ins}) \ NameSet(c.outs[1])
  THEN {Pair("unbracketed", JoinT([i \in DOMAIN c.ins |-> ExprToks(UnbrExpr(c.ins[i]))], <<",", " ">>) \o Arrow \o OutsToks(c), DescToks(c), NoKw, "same")}
  ELSE {}

(* --- rule: adjacent brackets = one bracket ("] [" -> " ") --- *)
RECURSIVE MergeBr(_)
MergeBr(t) == IF Len(t) < 3 THEN t
              ELSE IF t[1] = "]" /\ t[2] = " " /\ t[3] = "[" THEN <<" ">> \o MergeBr(SubSeq(t, 4, Len(t)))
              ELSE <<t[1]>> \o MergeBr(Tail(t))
MergedBrackets(c) == IF MergeBr(DescToks(c)) # DescToks(c) THEN {Pair("adjacent_brackets", MergeBr(DescToks(c)), DescToks(c), NoKw, "same")} ELSE {}

(* --- rule: a number = a fresh axis of that length (bracketed axes that occur once) --- *)
RECURSIVE Subst(_, _, _)
Subst(t, a, b) == IF t = <<>> THEN <<>> ELSE <<IF Head(t) = a THEN b ELSE Head(t)>> \o Subst(Tail(t), a, b)
Occurrences(c, n) == CountIn(n, DescToks(c))
Numbers(c) ==
  IF c.fam \in {"reduce", "preserve"}
  THEN {Pair("number", Subst(DescToks(c), n, LenTok(c.L[n])), DescToks(c), NoKw, "same")
          : n \in {m \in Range(BrNamesOf(c.ins[1])) : (c.fam = "reduce" /\ Occurrences(c, m) = 1)}}
  ELSE {}

(* a number in an input of an element-wise operation with omitted output: the fresh axis is part of the default output
   "a b 3, a b"  ==  "a b c, a b -> a b c" with c = 3   (omitted output and number = fresh axis, composed) *)
NumberOmitted(c) ==
  IF c.fam = "elementwise" /\ DefaultOut(c) # <<>> /\ DefaultOut(c) = c.outs
  THEN {Pair("number_and_omitted_output", Subst(InsToks(c), n, LenTok(c.L[n])), DescToks(c), NoKw, "same")
          : n \in {m \in NameSet(c.outs[1]) : CountIn(m, InsToks(c)) = 1 /\ c.L[m] \in 2..3}}     \* a literal 1 is not a fresh axis for this rule (the documented rule excludes 1s)
  ELSE {}

(* --- rule: additional spaces --- *)
Spaces(c) ==
  LET d == DescToks(c) IN
  {Pair("spaces", <<" ", " ">> \o d \o <<" ">>, d, NoKw, "same")}
  \cup {Pair("spaces", P!Insert(d, i), d, NoKw, "same") : i \in {j \in 2..Len(d) : P!SpaceOK(d, j) /\ j % 7 = Len(d) % 7}}

(* --- rule: keepdims=True = wrapping each bracket in parentheses (implicit output) --- *)
WrapBr(t) == [i \in DOMAIN t |-> IF t[i].k = "ax" /\ t[i].br THEN Fl(<<t[i]>>) ELSE t[i]]
Keepdims(c) ==
  IF c.fam = "reduce" /\ AllTopAx(c.ins[1]) /\ DefaultOut(c) = c.outs
  THEN {Pair("keepdims", InsToks(c), ExprToks(WrapBr(c.ins[1])), [keepdims |-> TRUE], "same")} ELSE {}

(* --- rule: ellipsis = its written-out repetition; anonymous "..." = one shared named ellipsis --- *)
CommonPrefixLen(c) ==
  LET ts == c.ins \o c.outs
      ok(k) == /\ \A i1 \in DOMAIN ts : Len(ts[i1]) >= k /\ SubSeq(ts[i1], 1, k) = SubSeq(ts[1], 1, k)
               /\ \A j1 \in 1..k : ts[1][j1].k = "ax" /\ ~ts[1][j1].br
               /\ \A i2 \in DOMAIN ts : \A j2 \in (k + 1)..Len(ts[i2]) : \A m \in 1..k : ts[1][m].n \notin Range(DimNames(ts[i2][j2]))
  IN IF ok(2) THEN 2 ELSE IF ok(1) THEN 1 ELSE 0
EllipsisForm(c, tok) ==
  LET k == CommonPrefixLen(c)
      f(t) == tok \o (IF Len(t) > k THEN <<" ">> \o ExprToks(SubSeq(t, k + 1, Len(t))) ELSE <<>>)
  IN JoinT([i \in DOMAIN c.ins |-> f(c.ins[i])], <<",", " ">>) \o Arrow \o JoinT([i \in DOMAIN c.outs |-> f(c.outs[i])], <<",", " ">>)
Ellipses(c) ==
  IF CommonPrefixLen(c) > 0 /\ c.fam # "update_at"
  THEN {Pair("anonymous_ellipsis", EllipsisForm(c, <<"...">>), DescToks(c), NoKw, "same"),
        Pair("named_ellipsis", EllipsisForm(c, <<"e", "...">>), DescToks(c), NoKw, "same"),
        Pair("anonymous_vs_named", EllipsisForm(c, <<"...">>), EllipsisForm(c, <<"e", "...">>), NoKw, "same")}
  ELSE {}

(* --- rule: nested '->' inside a bracket = its top-level distribution --- *)
(* X [p] Y -> X [p] Y  ==  X [p -> p] Y   (shape-preserving family: one bracketed plain axis) *)
BrPositions(t) == {i \in DOMAIN t : t[i].k = "ax" /\ t[i].br}
NestedArrow(c) ==
  IF c.fam = "preserve" /\ c.outs = c.ins /\ Cardinality(BrPositions(c.ins[1])) = 1 /\ AllTopAx(c.ins[1])
  THEN LET t == c.ins[1] i == CHOOSE j \in BrPositions(t) : TRUE
           pre == ExprToks(SubSeq(t, 1, i - 1)) post == ExprToks(SubSeq(t, i + 1, Len(t)))
           mid == <<"[", t[i].n, " ", "->", " ", t[i].n, "]">>
       IN {Pair("nested_arrow", (IF pre = <<>> THEN <<>> ELSE pre \o <<" ">>) \o mid \o (IF post = <<>> THEN <<>> ELSE <<" ">> \o post), DescToks(c), NoKw, "same")}
  ELSE {}

(* a (b, c) -> o  ==  a (b), a (c) -> o   (elementwise: two inputs with a common prefix and one trailing plain axis each) *)
NestedComma(c) ==
  IF c.fam = "elementwise" /\ Len(c.ins[1]) >= 1 /\ Len(c.ins[1]) = Len(c.ins[2])
     /\ SubSeq(c.ins[1], 1, Len(c.ins[1]) - 1) = SubSeq(c.ins[2], 1, Len(c.ins[2]) - 1)
     /\ c.ins[1][Len(c.ins[1])].k = "ax" /\ c.ins[2][Len(c.ins[2])].k = "ax"
  THEN LET n == Len(c.ins[1]) pre == ExprToks(SubSeq(c.ins[1], 1, n - 1))
           p == c.ins[1][n].n q == c.ins[2][n].n
           pfx == IF pre = <<>> THEN <<>> ELSE pre \o <<" ">>
       IN {Pair("nested_comma", pfx \o <<"(", p, ",", " ", q, ")">> \o Arrow \o OutsToks(c),
                pfx \o <<"(", p, ")", ",", " ">> \o pfx \o <<"(", q, ")">> \o Arrow \o OutsToks(c), NoKw, "same")}
  ELSE {}

(* --- rule: a length-1 coordinate bracket = no bracket --- *)
RECURSIVE DropNb1(_)
DropNb1(t) == IF Len(t) < 3 THEN t
              ELSE IF t[1] = "[" /\ t[2] = "1" /\ t[3] = "]" THEN DropNb1(SubSeq(t, 4, Len(t)))
              ELSE <<t[1]>> \o DropNb1(Tail(t))
RECURSIVE Tidy(_)   \* remove doubled / leading spaces left by deleting a token group
Tidy(t) == IF Len(t) < 2 THEN t ELSE IF t[1] = " " /\ t[2] \in {" ", ","} THEN Tidy(Tail(t)) ELSE <<t[1]>> \o Tidy(Tail(t))
Unit1Bracket(c) ==
  IF c.fam \in {"get_at", "argfind"} /\ DropNb1(DescToks(c)) # DescToks(c)
  THEN {Pair("unit_coordinate_bracket", P!DedupSpaces(Tidy(DropNb1(DescToks(c)))), DescToks(c), NoKw, "same")}
  ELSE {}

(* --- rule: einx.rearrange = einx.id --- *)
Rearrange(c) == IF c.fam = "id" THEN {Pair("rearrange", DescToks(c), DescToks(c), NoKw, "rearrange")} ELSE {}

(* --- rule: a scalar size for an ellipsis axis = the repeated tuple = the written-out repetition --- *)
(* c = [fam |-> "ellscalar", r, av, cv, dv, tail] :  "(a c)... d -> a... c... d"  with c=cv (scalar) *)
Idx(i) == CASE i = 1 -> "0" [] i = 2 -> "1" [] OTHER -> "2"
AName(i) == CASE i = 1 -> "a0" [] i = 2 -> "a1" [] OTHER -> "a2"
CName(i) == CASE i = 1 -> "c0" [] i = 2 -> "c1" [] OTHER -> "c2"
EllScalar(c) ==
  LET tl == IF c.tail THEN <<" ", "d">> ELSE <<>>
      short == <<"(", "a", " ", "c", ")", "...">> \o tl \o Arrow \o <<"a", "...", " ", "c", "...">> \o tl
      wr == JoinT([i \in 1..c.r |-> <<"(", AName(i), " ", CName(i), ")">>], <<" ">>) \o tl \o Arrow
            \o JoinT([i \in 1..c.r |-> <<AName(i)>>], <<" ">>) \o <<" ">> \o JoinT([i \in 1..c.r |-> <<CName(i)>>], <<" ">>) \o tl
      shape == [i \in 1..c.r |-> c.av * c.cv] \o (IF c.tail THEN <<c.dv>> ELSE <<>>)
  IN {[kind |-> "ellipsis_scalar_vs_tuple", short |-> short, long |-> short, kw |-> NoKw, opmap |-> "same", shape |-> shape,
       kwshort |-> [c |-> <<c.cv>>, d |-> <<c.dv>>, scalar |-> TRUE], kwlong |-> [c |-> [i \in 1..c.r |-> c.cv], d |-> <<c.dv>>, scalar |-> FALSE], names |-> <<>>],
      [kind |-> "ellipsis_scalar_vs_written_out", short |-> short, long |-> wr, kw |-> NoKw, opmap |-> "same", shape |-> shape,
       kwshort |-> [c |-> <<c.cv>>, d |-> <<c.dv>>, scalar |-> TRUE], kwlong |-> [c |-> [i \in 1..c.r |-> c.cv], d |-> <<c.dv>>, scalar |-> FALSE],
       names |-> [i \in 1..c.r |-> CName(i)]]}
EllScalarCases == {[fam |-> "ellscalar", r |-> r, av |-> av, cv |-> cv, dv |-> dv, tail |-> tl] : r \in 1..3, av \in 1..3, cv \in 1..3, dv \in 1..3, tl \in BOOLEAN}

RulePairs(c) == IF c.fam = "ellscalar" THEN EllScalar(c) ELSE
            OmitOutput(c) \cup OmitOutputNotUnique(c) \cup Unbracketed(c) \cup MergedBrackets(c) \cup Numbers(c) \cup NumberOmitted(c) \cup Spaces(c) \cup Keepdims(c)
            \cup Ellipses(c) \cup NestedArrow(c) \cup NestedComma(c) \cup Unit1Bracket(c) \cup Rearrange(c)

---------------------------------------------------------------------------
(* model-level checks with Parse.tla *)
SyntacticRules == {"spaces", "nested_arrow", "nested_comma"}
C07_BothParse == \A p \in RulePairs(case) : P!Parse(p.short).ok /\ P!Parse(p.long).ok
C07_SyntacticSame == \A p \in RulePairs(case) : p.kind \in SyntacticRules => P!Parse(p.short) = P!Parse(p.long)

EmitPairs == IF case.fam = "ellscalar" THEN PrintT(<<"P", ToJson([base |-> case, pairs |-> RulePairs(case)])>>)
             ELSE (ShardOf(case) # Shard \/ RulePairs(case) = {} \/
                   PrintT(<<"P", ToJson([base |-> CaseJson(case), pairs |-> RulePairs(case)])>>))
InitShort == IF Family = "ellscalar" THEN case \in EllScalarCases ELSE Init
SpecShort == InitShort /\ [][Next]_vars
=============================================================================
