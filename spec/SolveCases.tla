------------------------------ MODULE SolveCases ------------------------------
(***************************************************************************)
(* Case space for C02 and export of the specification's verdicts.           *)
(* A case is built from a hidden assignment H (so that consistent systems   *)
(* are frequent) by choosing: an expression list from the pool, which        *)
(* tensors have unknown shape, one optional perturbation of one dimension   *)
(* (+1), and a set of keyword sizes each of which is either H's value, a    *)
(* contradicting value, or absent.  Inconsistent and under-determined       *)
(* systems are therefore enumerated on purpose.                             *)
(***************************************************************************)
EXTENDS Solve, Json

CONSTANTS Pool,        \* "small" | "large"
          HSet,        \* set of hidden assignments: sequences <<a, b, c>>
          Shard, NShards

VARIABLE sc
vars == <<sc>>

Nm == <<"a", "b", "c">>
HFun(h) == [n \in Range(Nm) |-> h[CHOOSE i \in 1..3 : Nm[i] = n]]

A == SAx("a")  B == SAx("b")  C == SAx("c")
AtomsSmall == {A, B, SNum(2), SFl(<<A, B>>), SFl(<<A, SNum(2), B>>), SFl(<<A, A>>), SCt(<<A, B>>), SCt(<<A, SNum(1)>>),
               SEl(A, "a"), SEl(SFl(<<A, B>>), "a"), SEl(SAx("_anon"), "_anon")}
AtomsLarge == AtomsSmall \cup {C, SFl(<<B, SNum(2)>>), SCt(<<A, A>>), SFl(<<B, C>>), SFl(<<A, SCt(<<B, C>>)>>), SCt(<<SFl(<<A, B>>), C>>), SEl(B, "b"), SEl(SFl(<<A, SNum(2)>>), "a"), SNum(1)}
Atoms == IF Pool = "small" THEN AtomsSmall ELSE AtomsLarge

NumElIn(t) == Cardinality({j \in DOMAIN t : t[j].k = "el"})
Exprs1 == {t \in UNION {[1..m -> Atoms] : m \in 1..2} : NumElIn(t) <= 1}
Exprs  == IF Pool = "small" THEN Exprs1
          ELSE Exprs1 \cup {t \in [1..3 -> {A, B, SNum(2), SFl(<<A, B>>), SEl(A, "a"), SEl(B, "b")}] : NumElIn(t) <= 2}
Seconds == {<<A>>, <<B>>, <<A, B>>, <<SEl(A, "a")>>, <<SEl(A, "a"), B>>, <<SFl(<<A, B>>)>>, <<SCt(<<A, B>>)>>}
ExprLists == {<<t>> : t \in Exprs}
             \cup {<<t1, t2>> : t1 \in {t \in Exprs1 : Pool = "large" \/ Len(t) = 1}, t2 \in Seconds}

(* hidden repetition count of every ellipsis: 2; hidden lengths of expanded copies: H's value and H's value + i *)
HiddenRho(sys) == [id \in EllIds(sys) |-> 2]
HiddenL(sys, h) ==
  [n \in AllNames(sys, HiddenRho(sys)) |->
     IF n \in DOMAIN HFun(h) THEN HFun(h)[n]
     ELSE IF n = "a.0" THEN HFun(h)["a"] ELSE IF n = "a.1" THEN HFun(h)["b"]
     ELSE IF n = "b.0" THEN HFun(h)["b"] ELSE IF n = "b.1" THEN HFun(h)["c"]
     ELSE IF n = "_anon.0" THEN HFun(h)["c"] ELSE HFun(h)["a"]]

KwValue(sys, h, n, mode) ==      \* mode: "ok" | "bad" | "tuple"
  LET ids == {id \in EllIds(sys) : n \in EllBase(sys, id)} IN
  IF ids = {} THEN <<IF mode = "bad" THEN HFun(h)[n] + 1 ELSE HFun(h)[n]>>
  ELSE IF mode = "tuple" THEN <<HiddenL(sys, h)[n \o ".0"], HiddenL(sys, h)[n \o ".1"]>>
  ELSE <<IF mode = "bad" THEN HiddenL(sys, h)[n \o ".0"] + 1 ELSE HiddenL(sys, h)[n \o ".0"]>>

UsedBase(es) == UNION {UNION {DimNamesS(es[i][j]) : j \in DOMAIN es[i]} : i \in DOMAIN es} \ {"_anon"}

KwChoices(es) == [UsedBase(es) -> {"absent", "ok", "bad", "tuple"}]
KwSeq(sys, h, ch) ==
  LET ns == SelectSeq(Nm, LAMBDA n : n \in DOMAIN ch /\ ch[n] # "absent")
  IN [i \in DOMAIN ns |-> [n |-> ns[i], v |-> KwValue(sys, h, ns[i], ch[ns[i]])]]

MkSys(es, shapes, kw) == [exprs |-> es, shapes |-> shapes, kw |-> kw]

TrueShapes(es, h) ==
  LET s0 == MkSys(es, [i \in DOMAIN es |-> Unknown], <<>>)
      e(i) == Expand(es[i], HiddenRho(s0))
  IN [i \in DOMAIN es |-> [j \in DOMAIN e(i) |-> DimVal(e(i)[j], HiddenL(s0, h))]]

(* perturbations: none, +1 on one dimension, or one tensor loses its last dimension *)
PertSet(sh) ==
  {sh} \cup UNION {{[sh EXCEPT ![i] = [sh[i] EXCEPT ![j] = @ + 1]] : j \in DOMAIN sh[i]} : i \in DOMAIN sh}
       \cup {[sh EXCEPT ![i] = SubSeq(sh[i], 1, Len(sh[i]) - 1)] : i \in {ii \in DOMAIN sh : Len(sh[ii]) >= 2}}

UnknownMasks(es) == {m \in [DOMAIN es -> BOOLEAN] : Cardinality({i \in DOMAIN es : m[i]}) <= 1}

Systems(h) ==
  UNION {UNION {UNION {
     {MkSys(es, [i \in DOMAIN es |-> IF um[i] THEN Unknown ELSE sh[i]], KwSeq(MkSys(es, sh, <<>>), h, ch))
        : ch \in {c \in KwChoices(es) : Cardinality({n \in DOMAIN c : c[n] \in {"bad", "tuple"}}) <= 1
                                        /\ \A n \in DOMAIN c : c[n] = "tuple" => \E id \in EllIds(MkSys(es, sh, <<>>)) : n \in EllBase(MkSys(es, sh, <<>>), id)}}
     : um \in UnknownMasks(es)} : sh \in PertSet(TrueShapes(es, h))} : es \in ExprLists}

Init == sc \in UNION {{[sys |-> s, h |-> h] : s \in Systems(h)} : h \in HSet}
Next == FALSE /\ sc' = sc
Spec == Init /\ [][Next]_vars

(* bound for the brute force: every axis value is bounded by a dimension it contributes to or by a keyword value *)
MaxConst(sys) ==
  LET vals == UNION {Range(sys.shapes[i]) : i \in DOMAIN sys.shapes} \cup UNION {Range(sys.kw[j].v) : j \in DOMAIN sys.kw} \cup {2}
  IN CHOOSE m \in vals : \A v \in vals : v <= m

(* specification-level sanity: the hidden assignment is a solution whenever nothing was perturbed or contradicted *)
SolveSane ==
  LET sys == sc.sys M == MaxConst(sys) IN
  DepthConsistent(sys) /\
  (\A i \in DOMAIN sys.exprs : sys.shapes[i] = Unknown \/ sys.shapes[i] = TrueShapes(sys.exprs, sc.h)[i])
  /\ (\A j \in DOMAIN sys.kw : sys.kw[j].v = KwValue(sys, sc.h, sys.kw[j].n, IF Len(sys.kw[j].v) = 2 THEN "tuple" ELSE "ok"))
  /\ (\A j \in DOMAIN sys.kw : Len(sys.kw[j].v) = 1 => \A id \in EllIds(sys) : sys.kw[j].n \notin EllBase(sys, id))   \* a scalar for a repeated axis forces equal copies
  => (ShapeHolds(sys, HiddenRho(sys), HiddenL(sys, sc.h)) /\ KwHolds(sys, HiddenRho(sys), HiddenL(sys, sc.h)) /\ Solutions(sys, M + 1, 3) # {})

(* printing *)
RECURSIVE JoinS(_, _)
JoinS(ss, sep) == IF ss = <<>> THEN <<>> ELSE IF Len(ss) = 1 THEN ss[1] ELSE ss[1] \o sep \o JoinS(Tail(ss), sep)
NumT(v) == CASE v = 1 -> "1" [] v = 2 -> "2" [] v = 3 -> "3" [] OTHER -> "4"
RECURSIVE DimT(_)
DimT(d) ==
  CASE d.k = "ax"  -> IF d.n = "_anon" THEN <<>> ELSE <<d.n>>
    [] d.k = "num" -> <<NumT(d.v)>>
    [] d.k = "fl"  -> <<"(">> \o JoinS([i \in DOMAIN d.ch |-> DimT(d.ch[i])], <<" ">>) \o <<")">>
    [] d.k = "ct"  -> <<"(">> \o JoinS([i \in DOMAIN d.ch |-> DimT(d.ch[i])], <<" ", "+", " ">>) \o <<")">>
    [] OTHER       -> DimT(d.in) \o <<"...">>
ExprT(t) == JoinS([i \in DOMAIN t |-> DimT(t[i])], <<" ">>)

(* The system in which every parenthesised dimension (flattened or concatenated axis) is replaced by ONE opaque axis
   (identical sub-expressions by the same one), i.e. what remains when common-subexpression elimination hides the inner
   axes.  Used only to CLASSIFY a finding: "the opaque system is solvable although the real one is not". *)
GroupDims(sys) == UNION {UNION {{IF t[j].k = "el" THEN t[j].in ELSE t[j]} : j \in {jj \in DOMAIN t : t[jj].k \in {"fl", "ct"} \/ (t[jj].k = "el" /\ t[jj].in.k \in {"fl", "ct"})}} : t \in Range(sys.exprs)}
GN(i) == CASE i = 1 -> "g0" [] i = 2 -> "g1" [] OTHER -> "g2"
GIdx(d, gs) == CHOOSE i \in DOMAIN gs : gs[i] = d
OpaqueDim(d, gs) ==
  IF d.k \in {"fl", "ct"} THEN SAx(GN(GIdx(d, gs)))
  ELSE IF d.k = "el" /\ d.in.k \in {"fl", "ct"} THEN SEl(SAx(GN(GIdx(d.in, gs))), GN(GIdx(d.in, gs)))
  ELSE d
OpaqueSolvable(sys, M) ==
  LET G == GroupDims(sys) IN
  IF G = {} \/ Cardinality(G) > 3 THEN FALSE
  ELSE LET gs == CHOOSE q \in [1..Cardinality(G) -> G] : \A i, j \in DOMAIN q : i # j => q[i] # q[j]
           exprs2 == [i \in DOMAIN sys.exprs |-> [j \in DOMAIN sys.exprs[i] |-> OpaqueDim(sys.exprs[i][j], gs)]]
           left == UNION {ExprNamesS(exprs2[i]) : i \in DOMAIN exprs2}
           kw2 == SelectSeq(sys.kw, LAMBDA k : k.n \in left)        \* keywords for axes that are no longer visible are unused
       IN Solutions([sys EXCEPT !.exprs = exprs2, !.kw = kw2], M, 3) # {}

SolJson(sys, s) == [rho |-> s.rho, L |-> s.L, shapes |-> ShapesOf(sys, s)]

CaseOut ==
  LET sys == sc.sys M == MaxConst(sys) + 1
      S == Solutions(sys, M, 3)
      va == IF S = {} THEN "none" ELSE IF Cardinality(S) = 1 THEN "unique" ELSE "ambiguous"
      vs == IF S = {} THEN "none" ELSE IF \A s1, s2 \in S : ShapesOf(sys, s1) = ShapesOf(sys, s2) THEN "unique" ELSE "ambiguous"
  IN [toks |-> JoinS([i \in DOMAIN sys.exprs |-> ExprT(sys.exprs[i])], <<",", " ">>),
      shapes |-> sys.shapes, kw |-> sys.kw, bound |-> M,
      verdict_axes |-> va, verdict_shapes |-> vs, nsol |-> Cardinality(S),
      sol |-> IF S = {} THEN <<>> ELSE <<SolJson(sys, CHOOSE s \in S : TRUE)>>,
      propagate |-> PropagationComplete(sys), opaque_solvable |-> OpaqueSolvable(sys, M)]

ShardOfS == (Len(sc.sys.kw) + SeqSum([i \in DOMAIN sc.sys.shapes |-> Len(sc.sys.shapes[i]) + sc.sys.shapes[i][1] + 1]) + 7 * Len(sc.sys.exprs[1])) % NShards
EmitS == ShardOfS # Shard \/ PrintT(<<"S", ToJson(CaseOut)>>)
=============================================================================
