------------------------------- MODULE Factory -------------------------------
(***************************************************************************)
(* C13: the tensor-factory protocol of one einx call, as a state machine,   *)
(* and its trace specification.  A recorded call is                         *)
(*   [kind, pos, shapes, declared, events]                                  *)
(* kind     : "run" | "graph" | "rejected"   what the caller asked for /    *)
(*            how the call ended                                            *)
(* pos      : set of argument positions passed as callables                 *)
(* shapes   : position -> the shape its expression resolves to (computed by *)
(*            TLC from the corpus case: Loop.tla:Shape; the factory itself  *)
(*            contributes no equation)                                      *)
(* declared : position -> subset of {"name","arg_index","signature"} the    *)
(*            factory's signature declares (all three for **kwargs)         *)
(* events   : begin, optimize (the call compiles: frontend/api.py calls     *)
(*            tracer.optimize on every cache miss), invoke(i, shape, kw),   *)
(*            end(ok)                                                       *)
(* Rules: a factory is invoked only after compilation is over (phase run),  *)
(* at most once per position, with exactly the resolved shape and exactly   *)
(* the declared optional keywords; a call that returns normally has invoked *)
(* every factory exactly once; graph=True and rejected calls invoke none.   *)
(***************************************************************************)
EXTENDS Naturals, Sequences, FiniteSets, TLC, Json, IOUtils, TLCExt

Traces == ndJsonDeserialize(IOEnv.TRACE_FILE)
Range(s) == {s[i] : i \in DOMAIN s}

VARIABLES tid, l, phase, invoked, compiled
vars == <<tid, l, phase, invoked, compiled>>

T == Traces[tid]
Pos(t) == Range(t.pos)
Ev == T.events[l]

Init ==
  /\ tid \in 1..Len(Traces)
  /\ l = 1
  /\ phase = "idle"
  /\ invoked = [i \in Pos(Traces[tid]) |-> 0]
  /\ compiled = FALSE
  /\ TLCSet(tid, 1)

Step == l <= Len(T.events) /\ l' = l + 1 /\ tid' = tid /\ TLCSet(tid, l + 1)

(* begin: the call either hits the compile cache (run phase at once) or compiles first *)
BeginHit  == Ev.e = "begin" /\ phase = "idle" /\ phase' = "run" /\ UNCHANGED <<invoked, compiled>>
BeginMiss == Ev.e = "begin" /\ phase = "idle" /\ phase' = "compile" /\ UNCHANGED <<invoked, compiled>>
Optimize  == Ev.e = "optimize" /\ phase = "compile" /\ ~compiled /\ compiled' = TRUE /\ phase' = "run" /\ UNCHANGED invoked
Invoke ==
  /\ Ev.e = "invoke" /\ phase = "run" /\ T.kind = "run"
  /\ Ev.i \in Pos(T) /\ invoked[Ev.i] = 0
  /\ Ev.shape = T.shapes[Ev.i]
  /\ Range(Ev.kw) = Range(T.declared[Ev.i])
  /\ invoked' = [invoked EXCEPT ![Ev.i] = 1]
  /\ UNCHANGED <<phase, compiled>>
End ==
  /\ Ev.e = "end" /\ phase \in {"run", "compile"}
  /\ (Ev.ok /\ T.kind = "run") => \A i \in Pos(T) : invoked[i] = 1
  /\ (T.kind \in {"graph", "rejected"}) => \A i \in Pos(T) : invoked[i] = 0
  /\ (T.kind = "rejected") => ~Ev.ok
  /\ phase' = "done" /\ UNCHANGED <<invoked, compiled>>

Next == Step /\ (BeginHit \/ BeginMiss \/ Optimize \/ Invoke \/ End)
Spec == Init /\ [][Next]_vars

Rejected == {t \in 1..Len(Traces) : TLCGet(t) # Len(Traces[t].events) + 1}
TraceAccepted ==
  /\ \A t \in Rejected : PrintT(<<"REJECT", t, TLCGet(t)>>)
  /\ PrintT(<<"ACCEPTED", Len(Traces) - Cardinality(Rejected), "OF", Len(Traces)>>)

(* design-level check of the state machine itself (no trace): see MC_Factory.tla *)
=============================================================================
