------------------------------- MODULE Adapter -------------------------------
(***************************************************************************)
(* C15: what an adapted user function is handed, as a trace specification.  *)
(* A recorded call: [adapter, leaves, outleaves, kwonly, events]            *)
(*   leaves    : per input, the leaves [n, br, len] of its expression in    *)
(*               order (from Loop.tla:Parts of the corpus case)             *)
(*   outleaves : leaves of the output expression                            *)
(*   kwonly    : the keyword-only parameter names passed by the caller      *)
(*   events    : "call" records with the argument shapes, axis and keyword  *)
(*               names the user function actually received, then "end"      *)
(* adapt_numpylike_reduce: ONE call; the tensor is the input with flattened *)
(*   axes unflattened and un-bracketed unit axes squeezed; axis is the      *)
(*   tuple of positions of the bracketed leaves; keyword-only parameters    *)
(*   are forwarded verbatim (exactly the caller's names, never "axis").     *)
(* adapt_numpylike_elementwise: ONE call; all arguments have the same rank  *)
(*   and every dimension is 1 or the length of the aligned output axis.     *)
(***************************************************************************)
EXTENDS Naturals, Sequences, FiniteSets, TLC, Json, IOUtils, TLCExt

Traces == ndJsonDeserialize(IOEnv.TRACE_FILE)
Range(s) == {s[i] : i \in DOMAIN s}
VARIABLES tid, l, ncalls
vars == <<tid, l, ncalls>>
T == Traces[tid]
Ev == T.events[l]

Kept(lv) == SelectSeq(lv, LAMBDA x : x.br \/ x.len # 1)          \* un-bracketed unit axes are squeezed
ExpShape(lv) == [i \in DOMAIN Kept(lv) |-> Kept(lv)[i].len]
ExpAxis(lv)  == LET k == Kept(lv) idx == SelectSeq([i \in DOMAIN k |-> i], LAMBDA i : k[i].br) IN [j \in DOMAIN idx |-> idx[j] - 1]

Init == tid \in 1..Len(Traces) /\ l = 1 /\ ncalls = 0 /\ TLCSet(tid, 1)
Step == l <= Len(T.events) /\ l' = l + 1 /\ tid' = tid /\ TLCSet(tid, l + 1)

ReduceCall ==
  /\ T.adapter = "reduce" /\ Ev.e = "call" /\ ncalls = 0
  /\ Len(Ev.shapes) = 1
  /\ Ev.shapes[1] = ExpShape(T.leaves[1])
  /\ Ev.axis = ExpAxis(T.leaves[1])
  /\ Range(Ev.kw) = Range(T.kwonly)
  /\ ncalls' = 1

OutLens == [i \in DOMAIN Kept(T.outleaves) |-> Kept(T.outleaves)[i].len]
ElementwiseCall ==
  /\ T.adapter = "elementwise" /\ Ev.e = "call" /\ ncalls = 0
  /\ Len(Ev.shapes) = Len(T.leaves)
  /\ \A i \in DOMAIN Ev.shapes : Len(Ev.shapes[i]) = Len(Ev.shapes[1])
  /\ \A i \in DOMAIN Ev.shapes : \A j \in DOMAIN Ev.shapes[i] :
        \/ Ev.shapes[i][j] = 1
        \/ \E a \in DOMAIN Ev.shapes : Ev.shapes[a][j] = Ev.shapes[i][j] /\ \E n \in DOMAIN T.leaves[i] : T.leaves[i][n].len = Ev.shapes[i][j]
  /\ Range(Ev.kw) = Range(T.kwonly)
  /\ ncalls' = 1

End == Ev.e = "end" /\ (Ev.ok => ncalls = 1) /\ UNCHANGED ncalls

Next == Step /\ (ReduceCall \/ ElementwiseCall \/ End)
Spec == Init /\ [][Next]_vars

Rejected == {t \in 1..Len(Traces) : TLCGet(t) # Len(Traces[t].events) + 1}
TraceAccepted ==
  /\ \A t \in Rejected : PrintT(<<"REJECT", t, TLCGet(t)>>)
  /\ PrintT(<<"ACCEPTED", Len(Traces) - Cardinality(Rejected), "OF", Len(Traces)>>)
=============================================================================
