------------------------- MODULE Trace_RegistryConc -------------------------
(* Validate (code -> spec) for C10: access traces recorded from real threads running
   real einx calls under line-level pre-emption are checked to be behaviours of
   RegistryConc.tla.  Each recorded event <<thread, access>> must be the next micro
   step of that thread in the specification; the results the specification computes
   must equal the recorded ones; C10_Linearizable is evaluated in every state. *)
EXTENDS RegistryConc, Json, IOUtils, TLCExt

Traces == ndJsonDeserialize(IOEnv.TRACE_FILE)
VARIABLES tid, l
tvars == <<cvars, tid, l>>

TInit ==
  /\ tid \in 1..Len(Traces)
  /\ l = 1
  /\ cfg = Cfg0 /\ declared = Decl0 /\ imported = Imp0 /\ phase = "use"
  /\ reg = Reg0
  /\ prog = [t \in Threads |-> Traces[tid].prog[t]]
  /\ ip = [t \in Threads |-> 1]
  /\ mp = [t \in Threads |-> 1]
  /\ snap = [t \in Threads |-> Nil]
  /\ out = [t \in Threads |-> Nil]
  /\ lock = Nil
  /\ results = [t \in Threads |-> <<>>]
  /\ sched = <<>>
  /\ TLCSet(tid, 1)

TNext ==
  /\ l <= Len(Traces[tid].sched)
  /\ LET e == Traces[tid].sched[l] IN
       /\ ~Done(e[1])
       /\ CurStep(e[1]) = e[2]
       /\ Step(e[1])
  /\ l' = l + 1 /\ tid' = tid
  /\ TLCSet(tid, l + 1)

TSpec == TInit /\ [][TNext]_tvars

(* at the end of an accepted trace everything is done and the results agree *)
ResultsAgree ==
  (l = Len(Traces[tid].sched) + 1) =>
     /\ AllDone
     /\ \A t \in Threads : results[t] = Traces[tid].results[t]

Rejected == {t \in 1..Len(Traces) : TLCGet(t) # Len(Traces[t].sched) + 1}
TraceAccepted ==
  /\ \A t \in Rejected : PrintT(<<"REJECT", t, TLCGet(t)>>)
  /\ PrintT(<<"ACCEPTED", Len(Traces) - Cardinality(Rejected), "OF", Len(Traces)>>)
=============================================================================
