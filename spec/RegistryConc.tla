----------------------------- MODULE RegistryConc -----------------------------
(***************************************************************************)
(* Threaded refinement of Registry.tla (property C10).                      *)
(*                                                                         *)
(* BackendRegistry publishes an immutable snapshot in `self.state`; every   *)
(* method reads the snapshot, computes a new one privately and assigns it   *)
(* back.  The shared accesses of one method call are therefore a short      *)
(* sequence over {acq, read, write, rel}.  WHICH sequence each method       *)
(* performs is not assumed: it is the constant `Shape`, measured from the   *)
(* code under test by a single-threaded probe before TLC runs               *)
(* (harness/drive_conc.py:measure_shapes).  Pre-emption is possible between *)
(* any two shared accesses.                                                 *)
(***************************************************************************)
EXTENDS Registry

CONSTANTS
  Threads,      \* e.g. {"t1", "t2"}
  Shape,        \* [method name -> sequence over {"acq","read","write","rel"}] as measured on the code
  Programs,     \* set of candidate per-thread programs (sequences of op records)
  Cfg0,         \* fixed backend configuration  [BackendIds -> CfgRec]
  Decl0,        \* backends declared (registered) before the threads start, in order
  ImpDecl,      \* sys.modules while the initial registrations were made
  Imp0          \* sys.modules when the threads start (ImpDecl plus later imports)

VARIABLES
  prog,         \* [Threads -> program]  (chosen in Init)
  ip,           \* [Threads -> index of the current op, Len+1 when finished]
  mp,           \* [Threads -> index of the next micro step within the current op]
  snap,         \* [Threads -> snapshot read by the current op, or Nil]
  out,          \* [Threads -> outcome record computed from the snapshot, or Nil]
  lock,         \* Nil or the thread holding use_lock
  results,      \* [Threads -> sequence of results of completed ops]
  sched         \* history: sequence of <<thread, micro step>> (for replay; hidden by VIEW in exhaustive runs)

cvars == <<prog, ip, mp, snap, out, lock, results, sched, cfg, declared, imported, reg, phase>>

OpOk(v)   == [k |-> "ok", v |-> v]
OpFail(c) == [k |-> "err", v |-> c]
Unit      == [k |-> "none", v |-> Nil]

(* Sequential meaning of one op on a snapshot: [s |-> new snapshot, res |-> result, raised |-> BOOLEAN] *)
ApplyOp(s, op) ==
  IF op.m = "get" THEN
      LET r == DoGet(s, cfg, imported, op.arg, op.tt)
      IN [s |-> r.s, res |-> r.res, raised |-> r.res.k = "err"]
  ELSE IF op.m = "get_by_name" THEN
      LET r == DoGetByName(s, imported, op.arg.v)
      IN [s |-> r.s, res |-> r.res, raised |-> r.res.k = "err"]
  ELSE IF op.m = "enter" THEN [s |-> DoEnter(s, op.arg.v), res |-> Unit, raised |-> FALSE]
  ELSE IF op.m = "exit" THEN
      IF s.stack = <<>> THEN [s |-> s, res |-> OpFail("IndexError"), raised |-> TRUE]
      ELSE IF ~CanExit(s, op.arg.v) THEN [s |-> s, res |-> OpFail("AssertionError"), raised |-> TRUE]
      ELSE [s |-> DoExit(s, op.arg.v), res |-> Unit, raised |-> FALSE]
  ELSE IF op.m = "register" THEN
      [s |-> IF cfg[op.arg.v].lazy THEN DoRegisterOnImport(s, cfg, imported, op.arg.v) ELSE DoRegister(s, op.arg.v),
       res |-> Unit, raised |-> FALSE]
  ELSE [s |-> s, res |-> OpFail("unknown-op"), raised |-> TRUE]

RECURSIVE Declare(_, _)
Declare(s, d) == IF d = <<>> THEN s
                 ELSE Declare(IF Cfg0[Head(d)].lazy THEN DoRegisterOnImport(s, Cfg0, ImpDecl, Head(d)) ELSE DoRegister(s, Head(d)), Tail(d))

Reg0 == Declare(EmptyReg, Decl0)

CInit ==
  /\ cfg = Cfg0 /\ declared = Decl0 /\ imported = Imp0 /\ phase = "use"
  /\ reg = Reg0
  /\ prog \in [Threads -> Programs]
  /\ ip = [t \in Threads |-> 1]
  /\ mp = [t \in Threads |-> 1]
  /\ snap = [t \in Threads |-> Nil]
  /\ out = [t \in Threads |-> Nil]
  /\ lock = Nil
  /\ results = [t \in Threads |-> <<>>]
  /\ sched = <<>>

Done(t)   == ip[t] > Len(prog[t])
CurOp(t)  == prog[t][ip[t]]
CurShape(t) == Shape[CurOp(t).m]
CurStep(t)  == CurShape(t)[mp[t]]

RECURSIVE NextRel(_, _)
NextRel(sh, i) == IF sh[i] = "rel" THEN i ELSE NextRel(sh, i + 1)

Step(t) ==
  /\ ~Done(t)
  /\ sched' = Append(sched, <<t, CurStep(t)>>)
  /\ UNCHANGED <<prog, cfg, declared, imported, phase>>
  /\ \/ /\ CurStep(t) = "acq" /\ lock = Nil
        /\ lock' = t
        /\ mp' = [mp EXCEPT ![t] = @ + 1]
        /\ UNCHANGED <<reg, snap, out, results, ip>>
     \/ /\ CurStep(t) = "read"
        /\ LET o == ApplyOp(reg, CurOp(t)) IN
           /\ out' = [out EXCEPT ![t] = o]
           /\ IF o.raised
              THEN (* exception: the write is skipped; a held lock is released by the with-statement,
                      which is a separate shared access (the thread can be pre-empted before it) *)
                   /\ UNCHANGED <<reg, lock>>
                   /\ snap' = [snap EXCEPT ![t] = Nil]
                   /\ IF lock = t
                      THEN /\ mp' = [mp EXCEPT ![t] = NextRel(CurShape(t), mp[t])]
                           /\ UNCHANGED <<results, ip>>
                      ELSE /\ results' = [results EXCEPT ![t] = Append(@, o.res)]
                           /\ ip' = [ip EXCEPT ![t] = @ + 1]
                           /\ mp' = [mp EXCEPT ![t] = 1]
              ELSE /\ snap' = [snap EXCEPT ![t] = reg]
                   /\ UNCHANGED <<reg, lock>>
                   /\ IF mp[t] = Len(CurShape(t))
                      THEN /\ results' = [results EXCEPT ![t] = Append(@, o.res)]
                           /\ ip' = [ip EXCEPT ![t] = @ + 1] /\ mp' = [mp EXCEPT ![t] = 1]
                      ELSE /\ mp' = [mp EXCEPT ![t] = @ + 1] /\ UNCHANGED <<results, ip>>
     \/ /\ CurStep(t) = "write"
        /\ reg' = out[t].s
        /\ UNCHANGED <<lock, out, snap>>
        /\ IF mp[t] = Len(CurShape(t))
           THEN /\ results' = [results EXCEPT ![t] = Append(@, out[t].res)]
                /\ ip' = [ip EXCEPT ![t] = @ + 1] /\ mp' = [mp EXCEPT ![t] = 1]
           ELSE /\ mp' = [mp EXCEPT ![t] = @ + 1] /\ UNCHANGED <<results, ip>>
     \/ /\ CurStep(t) = "rel" /\ lock = t
        /\ lock' = Nil
        /\ UNCHANGED <<reg, out, snap>>
        /\ IF mp[t] = Len(CurShape(t))
           THEN /\ results' = [results EXCEPT ![t] = Append(@, out[t].res)]
                /\ ip' = [ip EXCEPT ![t] = @ + 1] /\ mp' = [mp EXCEPT ![t] = 1]
           ELSE /\ mp' = [mp EXCEPT ![t] = @ + 1] /\ UNCHANGED <<results, ip>>

CNext == \E t \in Threads : Step(t)

CSpec == CInit /\ [][CNext]_cvars

---------------------------------------------------------------------------
AllDone == \A t \in Threads : Done(t)

(* observable projection of a snapshot (the memo is compared as a set) *)
Proj(s) == [backends |-> s.backends, lazy |-> s.lazy, seen |-> s.seen, memo |-> Range(s.memo), stack |-> s.stack]

(* all outcomes of serial executions of the programs (ops atomic, program order kept) *)
RECURSIVE Serial(_, _, _)
Serial(s, idx, res) ==
  IF \A t \in Threads : idx[t] > Len(prog[t])
  THEN {[final |-> Proj(s), results |-> res]}
  ELSE UNION { LET o == ApplyOp(s, prog[t][idx[t]])
               IN Serial(o.s, [idx EXCEPT ![t] = @ + 1], [res EXCEPT ![t] = Append(@, o.res)])
               : t \in {u \in Threads : idx[u] <= Len(prog[u])} }

SerialOutcomes == Serial(Reg0, [t \in Threads |-> 1], [t \in Threads |-> <<>>])

(* C10: every completed concurrent execution is indistinguishable from a serial one:
   same per-call results, same final global backend state *)
C10_Linearizable ==
  AllDone => [final |-> Proj(reg), results |-> results] \in SerialOutcomes

(* no call fails because of another thread's activity: whatever failed also fails in that serial order
   (implied by C10_Linearizable; kept separate so that a violation names the clause) *)
C10_NoSpuriousFailure ==
  AllDone => \E o \in SerialOutcomes : o.results = results

(* a completed enter is on the stack until its exit: after everything finished the stack holds exactly
   the enters without a successful exit *)
C10_NoLostSelection ==
  AllDone => \E o \in SerialOutcomes : o.final.stack = reg.stack /\ o.final.backends = reg.backends

(* the lock is free when all threads are done, nobody holds it while idle *)
LockFreeAtEnd == AllDone => lock = Nil

(* no deadlock: some thread can always move unless all are done *)
NoStuck == AllDone \/ ENABLED CNext

View == <<prog, ip, mp, snap, out, lock, results, reg>>
=============================================================================
