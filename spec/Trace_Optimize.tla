---------------------------- MODULE Trace_Optimize ----------------------------
(* Validate (code -> spec) for C05: rewrites recorded from the real optimiser.
   A record is one call of tracer.optimize:
     [fires, passes, sizes]
   fires  : sequence of [rule, perm, perm1, newperm, inshape, shape, newshape, n, asserts, exact]
   passes : number of Optimizer passes that ran
   sizes  : number of call / cast / graph nodes reachable before each pass and after the last one *)
EXTENDS Optimize, Json, IOUtils, TLCExt
Recs == ndJsonDeserialize(IOEnv.TRACE_FILE)
VARIABLE tid
Init == tid \in 1..Len(Recs)
Next == FALSE /\ tid' = tid
Spec == Init /\ [][Next]_tid

Zero(p) == [i \in DOMAIN p |-> p[i]]
FireOK(f) ==
  CASE f.rule = "SkipTranspose.nop"    -> f.perm = IdPerm(Len(f.perm))
    [] f.rule = "SkipTranspose.merge"  ->
         /\ f.newperm = MergedPerm(f.perm1, f.perm)
         /\ (SeqProd(f.inshape) <= 720 =>
               ComposeMaps(TMap(TShape(f.inshape, f.perm1), f.perm), TMap(f.inshape, f.perm1)) = TMap(f.inshape, f.newperm))
    [] f.rule = "SkipReshape.nop"      -> f.shape = f.inshape
    [] f.rule = "SkipReshape.merge"    -> SeqProd(f.newshape) = SeqProd(f.inshape) /\ f.newshape = f.shape
    [] f.rule = "SkipBroadcastTo.nop"  -> f.shape = f.inshape
    [] f.rule = "SkipConcatenate.single" -> f.n = 1
    [] f.rule = "InlineGraph"          -> f.exact = 1 /\ f.asserts = 0     \* lambda xs: g(xs) with nothing else in it (no assertion, same arguments in the same order)
    [] f.rule = "SkipCast"             -> TRUE
    [] OTHER -> TRUE      \* a rule this specification does not model: its firings are counted and reported, not judged here
                          \* (whatever it does to values is judged end-to-end by the OptTerms.tla replay and by C01)

(* termination: the graph never grows, every pass but the last fires at least once, and the number of passes is
   bounded by the initial size (a merge through a value with a second consumer keeps the size but shortens a chain) *)
Terminates(r) ==
  /\ r.passes <= r.sizes[1] + 1
  /\ Len(r.fires) >= r.passes - 1
  /\ \A i \in 1..(Len(r.sizes) - 1) : r.sizes[i + 1] <= r.sizes[i]

RecOK(r) == (\A i \in DOMAIN r.fires : FireOK(r.fires[i])) /\ Terminates(r)
Chk == RecOK(Recs[tid]) \/ PrintT(<<"BADREWRITE", tid>>)
=============================================================================
