-------------------------------- MODULE Loop --------------------------------
(***************************************************************************)
(* The loop-notation DENOTATION of an einx operation: the definition that   *)
(* properties C01, C07, C08, C14, C15 refer to ("the for-loops the          *)
(* description denotes").  It is independent of how einx lowers anything:   *)
(* no reshape, no transpose, no einsum - only index arithmetic.             *)
(*                                                                         *)
(* A tensor expression is a sequence of dimensions                          *)
(*    [k |-> "ax", n, br]        named axis n, br = written inside [ ]      *)
(*    [k |-> "one"]              the literal 1                              *)
(*    [k |-> "fl", ch]           ( ... ) flattened axis over sub-dimensions *)
(*    [k |-> "ct", ch]           ( x + y ) concatenated axis                *)
(* A *part* of a tensor is one choice of block for every '+': a sequence of *)
(* leaves with strides plus a constant offset, i.e. the flat row-major      *)
(* position of an element is  off + SUM stride(leaf) * index(leaf).         *)
(* One loop iteration sigma assigns an index to every un-bracketed name;    *)
(* the bracketed leaves of a tensor span the sub-tensor handed to the       *)
(* elementary operation.  Groups(c) lists, per iteration, the flat          *)
(* positions of every input's and output's sub-tensor.                      *)
(***************************************************************************)
EXTENDS Naturals, Integers, Sequences, FiniteSets, TLC

Ax(n, br) == [k |-> "ax", n |-> n, br |-> br]
One       == [k |-> "one"]
Fl(ch)    == [k |-> "fl", ch |-> ch]
Ct(ch)    == [k |-> "ct", ch |-> ch]

RECURSIVE SeqSum(_)
SeqSum(s) == IF s = <<>> THEN 0 ELSE Head(s) + SeqSum(Tail(s))
RECURSIVE SeqProd(_)
SeqProd(s) == IF s = <<>> THEN 1 ELSE Head(s) * SeqProd(Tail(s))
RECURSIVE Flatten(_)
Flatten(ss) == IF ss = <<>> THEN <<>> ELSE Head(ss) \o Flatten(Tail(ss))
Range(s) == {s[i] : i \in DOMAIN s}

(* size of a dimension under the length assignment L : name -> Nat *)
RECURSIVE DimSize(_, _)
DimSize(d, L) ==
  CASE d.k = "ax"  -> L[d.n]
    [] d.k = "one" -> 1
    [] d.k = "nb"  -> d.v
    [] d.k = "fl"  -> SeqProd([i \in DOMAIN d.ch |-> DimSize(d.ch[i], L)])
    [] OTHER       -> SeqSum([i \in DOMAIN d.ch |-> DimSize(d.ch[i], L)])

Shape(t, L) == [i \in DOMAIN t |-> DimSize(t[i], L)]
NumEl(t, L) == SeqProd(Shape(t, L))

(* leaves and parts.  A leaf: [n, br, len, st].  n = "1" for the literal 1. *)
Leaf(n, br, len, st) == [n |-> n, br |-> br, len |-> len, st |-> st]
Part(lv, off) == [lv |-> lv, off |-> off]
Scale(p, m) == Part([i \in DOMAIN p.lv |-> [p.lv[i] EXCEPT !.st = @ * m]], p.off * m)
Shift(p, o) == Part(p.lv, p.off + o)

(* row-major product of the parts of consecutive dimensions: sizes[i] = size of dimension i *)
RECURSIVE ProdParts(_, _)
ProdParts(pss, sizes) ==        \* pss: sequence (per dimension) of sequences of parts
  IF pss = <<>> THEN <<Part(<<>>, 0)>>
  ELSE LET rest == ProdParts(Tail(pss), Tail(sizes))
           m    == SeqProd(Tail(sizes))
       IN Flatten([i \in DOMAIN Head(pss) |->
                     [j \in DOMAIN rest |-> Part(Scale(Head(pss)[i], m).lv \o rest[j].lv, Scale(Head(pss)[i], m).off + rest[j].off)]])

RECURSIVE DimParts(_, _)
RECURSIVE CatParts(_, _, _)
CatParts(ch, L, off) ==
  IF ch = <<>> THEN <<>>
  ELSE LET ps == DimParts(Head(ch), L)
       IN [i \in DOMAIN ps |-> Shift(ps[i], off)] \o CatParts(Tail(ch), L, off + DimSize(Head(ch), L))
DimParts(d, L) ==
  CASE d.k = "ax"  -> <<Part(<<Leaf(d.n, d.br, L[d.n], 1)>>, 0)>>
    [] d.k = "one" -> <<Part(<<Leaf("1", FALSE, 1, 1)>>, 0)>>
    [] d.k = "nb"  -> <<Part(<<Leaf("#", TRUE, d.v, 1)>>, 0)>>
    [] d.k = "fl"  -> ProdParts([i \in DOMAIN d.ch |-> DimParts(d.ch[i], L)], [i \in DOMAIN d.ch |-> DimSize(d.ch[i], L)])
    [] OTHER       -> CatParts(d.ch, L, 0)

Parts(t, L) == ProdParts([i \in DOMAIN t |-> DimParts(t[i], L)], Shape(t, L))

---------------------------------------------------------------------------
(* iterations and sub-tensor positions *)
LoopNames(p)  == {p.lv[i].n : i \in {j \in DOMAIN p.lv : ~p.lv[j].br /\ p.lv[j].n # "1"}}
BrLeaves(p)   == SelectSeq(p.lv, LAMBDA l : l.br)
BrShape(p)    == [i \in DOMAIN BrLeaves(p) |-> BrLeaves(p)[i].len]
BrNames(p)    == [i \in DOMAIN BrLeaves(p) |-> BrLeaves(p)[i].n]

(* unravel j (0-based) over shape sh: index of dimension i *)
Unravel(j, sh, i) == (j \div SeqProd(SubSeq(sh, i + 1, Len(sh)))) % sh[i]

(* flat position of the element of part p selected by sigma (loop names) and the j-th (0-based, row-major)
   index combination of the bracketed leaves *)
BrIndexOf(p, li) == Cardinality({j \in 1..li : p.lv[j].br})      \* which bracket leaf is leaf li
PosOf(p, sigma, j) ==
  p.off + SeqSum([li \in DOMAIN p.lv |->
                    p.lv[li].st * (IF p.lv[li].br THEN Unravel(j, BrShape(p), BrIndexOf(p, li))
                                   ELSE IF p.lv[li].n = "1" THEN 0
                                   ELSE sigma[p.lv[li].n])])

SubPositions(p, sigma) == [j \in 1..SeqProd(BrShape(p)) |-> PosOf(p, sigma, j - 1)]

(* iterations over a set of loop names, in row-major order of the fixed name order NameOrder *)
CONSTANT NameOrder       \* sequence of all axis names
NameSeq(S)    == SelectSeq(NameOrder, LAMBDA n : n \in S)
IndexIn(s, x) == CHOOSE i \in DOMAIN s : s[i] = x
NumSigmas(S, L) == SeqProd([i \in DOMAIN NameSeq(S) |-> L[NameSeq(S)[i]]])
SigmaAt(S, L, g) ==      \* g-th (0-based) iteration
  LET ns == NameSeq(S) lens == [i \in DOMAIN ns |-> L[ns[i]]]
  IN [n \in S |-> Unravel(g, lens, IndexIn(ns, n))]

---------------------------------------------------------------------------
(* A case: [fam, ins, outs, L].  Groups: one record per loop iteration (and, for id with '+', per pair of parts) *)
Group(ins, outs) == [ins |-> ins, outs |-> outs]

(* families without '+': every tensor has exactly one part *)
P1(t, L) == Parts(t, L)[1]
AllLoopNames(c) == UNION ({LoopNames(P1(c.ins[i], c.L)) : i \in DOMAIN c.ins} \cup {LoopNames(P1(c.outs[i], c.L)) : i \in DOMAIN c.outs})

GroupsPlain(c) ==
  LET S == AllLoopNames(c) IN
  [g \in 1..NumSigmas(S, c.L) |->
     LET sg == SigmaAt(S, c.L, g - 1) IN
     Group([i \in DOMAIN c.ins |-> SubPositions(P1(c.ins[i], c.L), sg)],
           [i \in DOMAIN c.outs |-> SubPositions(P1(c.outs[i], c.L), sg)])]

(* id: the parts of all inputs, in order, are paired with the parts of all outputs, in order *)
Owner(ts, L) == Flatten([i \in DOMAIN ts |-> [j \in DOMAIN Parts(ts[i], L) |-> i]])     \* which tensor owns part number k
AllParts(ts, L) == Flatten([i \in DOMAIN ts |-> Parts(ts[i], L)])

GroupsId(c) ==
  LET ip == AllParts(c.ins, c.L)  io == Owner(c.ins, c.L)
      op == AllParts(c.outs, c.L) oo == Owner(c.outs, c.L)
  IN Flatten([k \in DOMAIN ip |->
       LET S == LoopNames(ip[k]) \cup LoopNames(op[k]) IN
       [g \in 1..NumSigmas(S, c.L) |->
          LET sg == SigmaAt(S, c.L, g - 1) IN
          Group([i \in DOMAIN c.ins |-> IF i = io[k] THEN SubPositions(ip[k], sg) ELSE <<>>],
                [i \in DOMAIN c.outs |-> IF i = oo[k] THEN SubPositions(op[k], sg) ELSE <<>>])]])

Groups(c) == IF c.fam = "id" THEN GroupsId(c) ELSE GroupsPlain(c)

---------------------------------------------------------------------------
(* Well-definedness of the denotation itself *)
IdPartsMatch(c) ==
  LET ip == AllParts(c.ins, c.L) op == AllParts(c.outs, c.L) IN
  /\ Len(ip) = Len(op)
  /\ \A k \in DOMAIN ip :
        {n \in LoopNames(ip[k]) : c.L[n] # 1} \subseteq LoopNames(op[k])      \* every non-unit input axis reaches the output

(* every output position is written by exactly one group (update_at excepted: its output starts as the target) *)
RECURSIVE CountIn(_, _)
CountIn(x, s) == IF s = <<>> THEN 0 ELSE (IF Head(s) = x THEN 1 ELSE 0) + CountIn(x, Tail(s))

OutWrites(c, o) == Flatten([g \in DOMAIN Groups(c) |-> Groups(c)[g].outs[o]])
WellDefined(c) ==
  /\ \A o \in DOMAIN c.outs :
        LET w == OutWrites(c, o) n == NumEl(c.outs[o], c.L) IN
        /\ \A i \in DOMAIN w : w[i] >= 0 /\ w[i] < n
        /\ (c.fam # "update_at" => (Len(w) = n /\ Cardinality(Range(w)) = n))
  /\ \A g \in DOMAIN Groups(c) : \A i \in DOMAIN c.ins :
        \A j \in DOMAIN Groups(c)[g].ins[i] :
           Groups(c)[g].ins[i][j] >= 0 /\ Groups(c)[g].ins[i][j] < NumEl(c.ins[i], c.L)

---------------------------------------------------------------------------
(* printing a tensor expression in the notation (token sequence) *)
RECURSIVE JoinT(_, _)
JoinT(ss, sep) == IF ss = <<>> THEN <<>> ELSE IF Len(ss) = 1 THEN ss[1] ELSE ss[1] \o sep \o JoinT(Tail(ss), sep)
RECURSIVE DimToks(_)
DimToks(d) ==
  CASE d.k = "ax"  -> IF d.br THEN <<"[", d.n, "]">> ELSE <<d.n>>
    [] d.k = "one" -> <<"1">>
    [] d.k = "nb"  -> <<"[", (CASE d.v = 1 -> "1" [] d.v = 2 -> "2" [] d.v = 3 -> "3" [] OTHER -> "4"), "]">>
    [] d.k = "fl"  -> <<"(">> \o JoinT([i \in DOMAIN d.ch |-> DimToks(d.ch[i])], <<" ">>) \o <<")">>
    [] OTHER       -> <<"(">> \o JoinT([i \in DOMAIN d.ch |-> DimToks(d.ch[i])], <<" ", "+", " ">>) \o <<")">>
ExprToks(t) == JoinT([i \in DOMAIN t |-> DimToks(t[i])], <<" ">>)
DescToks(c) == JoinT([i \in DOMAIN c.ins |-> ExprToks(c.ins[i])], <<",", " ">>) \o <<" ", "->", " ">>
               \o JoinT([i \in DOMAIN c.outs |-> ExprToks(c.outs[i])], <<",", " ">>)

=============================================================================
